// C04: HalfedgePairData (impl.cpp), the sort key of the large-vertex-count
// path of CreateHalfedges.  Slots inside a bucket are handed out by an atomic
// counter from a parallel loop, i.e. in SCHEDULE order; the per-bucket sort is
// what makes the result deterministic again.  That only works if the key
// totally orders the entries of a bucket: within a bucket (same smaller
// vertex, same direction) an entry is identified by (larger vertex, triangle),
// so the comparator must be a strict weak order whose ties are exactly
// "same larger vertex AND same triangle".
#include <type_traits>
#include <utility>
#include "vf_harness.h"
#include "impl.cpp"
using namespace manifold;
template <typename T, typename = void> struct HasTri : std::false_type {};
template <typename T> struct HasTri<T, std::void_t<decltype(std::declval<T>().tri)>> : std::true_type {};
template <typename T> static int triOf(const T& x) { if constexpr (HasTri<T>::value) return x.tri; else return 0; }
template <typename T> static T mk() {
  T x{};
  x.largeVert = vf_int();
  x.edgeIndex = vf_int();
  if constexpr (HasTri<T>::value) x.tri = vf_int();
  return x;
}
extern "C" void h_cmp_pairdata() {
  using K = HalfedgePairData;
  const K a = mk<K>(), b = mk<K>(), c = mk<K>();
  // the key must carry the triangle: without it two entries of one bucket with
  // the same larger vertex (an edge shared by 4 or more triangles) cannot be told apart
  VF_ASSERT(HasTri<K>::value);
  VF_ASSERT(!(a < a));
  VF_ASSERT(!((a < b) && (b < a)));
  if ((a < b) && (b < c)) VF_ASSERT(a < c);
  if (!(a < b) && !(b < a) && !(b < c) && !(c < b)) VF_ASSERT(!(a < c) && !(c < a));
  if (!(a < b) && !(b < a)) VF_ASSERT(a.largeVert == b.largeVert && triOf(a) == triOf(b));
  if (a.largeVert != b.largeVert || triOf(a) != triOf(b)) VF_ASSERT((a < b) || (b < a));
  VF_END();
}

// C20: forwarding wrappers of bindings/c/cross.cpp (CrossSection), same scheme
// as c20_forward.cpp: the C++ method, CrossSection's copy constructor and
// destructor are recording stubs; everything else is the real binding code.
#include "vf_harness.h"
#include "conv.cpp"
#include "cross.cpp"
using namespace manifold;
static double F() { return vf_nondet_f64(); }
struct Rec { int calls; const CrossSection* self; const void* ret; const CrossSection* other; double d[6]; int i, j; };
static Rec g;
static int g_copies, g_dtors;
static const void *g_copy_dst, *g_copy_src, *g_dtor_obj;
static uint64_t bits(double x) { uint64_t b; __builtin_memcpy(&b, &x, 8); return b; }
#define SAMEBITS(a, b) VF_ASSERT(bits(a) == bits(b))
extern "C" {
void vf_stub_copy(CrossSection* dst, const CrossSection* src) { g_copies++; g_copy_dst = dst; g_copy_src = src; }
void vf_stub_dtor(CrossSection* obj) { g_dtors++; g_dtor_obj = obj; }
void vf_stub_V2(CrossSection* ret, const CrossSection* self, vec2 v) { g.calls++; g.ret = ret; g.self = self; g.d[0] = v.x; g.d[1] = v.y; }
void vf_stub_D(CrossSection* ret, const CrossSection* self, double a) { g.calls++; g.ret = ret; g.self = self; g.d[0] = a; }
void vf_stub_M23(CrossSection* ret, const CrossSection* self, const mat2x3* m) {
  g.calls++; g.ret = ret; g.self = self;
  for (int c = 0; c < 3; c++)
    for (int r = 0; r < 2; r++) g.d[2 * c + r] = (*m)[c][r];
}
void vf_stub_OFF(CrossSection* ret, const CrossSection* self, double delta, CrossSection::JoinType jt, double miter, int seg) {
  g.calls++; g.ret = ret; g.self = self; g.d[0] = delta; g.d[1] = miter; g.i = (int)jt; g.j = seg;
}
void vf_stub_CO(CrossSection* ret, const CrossSection* self, const CrossSection* other, OpType op) {
  g.calls++; g.ret = ret; g.self = self; g.other = other; g.i = (int)op;
}
}
alignas(16) static unsigned char objA[sizeof(CrossSection)], objB[sizeof(CrossSection)], mem[sizeof(CrossSection)];
static ManifoldCrossSection* A() { return reinterpret_cast<ManifoldCrossSection*>(objA); }
static ManifoldCrossSection* B() { return reinterpret_cast<ManifoldCrossSection*>(objB); }
static void built(ManifoldCrossSection* r) {
  VF_ASSERT(g.calls == 1);
  VF_ASSERT((const void*)g.self == (const void*)objA);
  VF_ASSERT((void*)r == (void*)mem);
  VF_ASSERT(g_copies == 1 && g_copy_dst == (void*)mem && g_copy_src == g.ret);
  VF_ASSERT(g_dtors == 1 && g_dtor_obj == g.ret);
}
#if VF_W == 1
extern "C" void h_fw() { double x = F(), y = F();
  auto r = manifold_cross_section_translate(mem, A(), x, y); built(r); SAMEBITS(g.d[0], x); SAMEBITS(g.d[1], y); VF_END(); }
#elif VF_W == 2
extern "C" void h_fw() { double x = F(), y = F();
  auto r = manifold_cross_section_scale(mem, A(), x, y); built(r); SAMEBITS(g.d[0], x); SAMEBITS(g.d[1], y); VF_END(); }
#elif VF_W == 3
extern "C" void h_fw() { double x = F(), y = F();
  auto r = manifold_cross_section_mirror(mem, A(), x, y); built(r); SAMEBITS(g.d[0], x); SAMEBITS(g.d[1], y); VF_END(); }
#elif VF_W == 4
extern "C" void h_fw() { double a = F();
  auto r = manifold_cross_section_rotate(mem, A(), a); built(r); SAMEBITS(g.d[0], a); VF_END(); }
#elif VF_W == 5
extern "C" void h_fw() { double a = F();
  auto r = manifold_cross_section_simplify(mem, A(), a); built(r); SAMEBITS(g.d[0], a); VF_END(); }
#elif VF_W == 6
extern "C" void h_fw() { double v[6]; for (int i = 0; i < 6; i++) v[i] = F();
  auto r = manifold_cross_section_transform(mem, A(), v[0], v[1], v[2], v[3], v[4], v[5]); built(r);
  for (int i = 0; i < 6; i++) SAMEBITS(g.d[i], v[i]);  // (x1,y1) is column 0, (x2,y2) column 1, (x3,y3) the translation
  VF_END(); }
#elif VF_W == 7
extern "C" void h_fw() { double delta = F(), miter = F(); int seg = vf_int();
  unsigned jt = vf_nondet_u32(); vf_assume(jt <= 3);
  auto r = manifold_cross_section_offset(mem, A(), delta, (ManifoldJoinType)jt, miter, seg); built(r);
  SAMEBITS(g.d[0], delta); SAMEBITS(g.d[1], miter); VF_ASSERT(g.j == seg);
  const CrossSection::JoinType want = jt == MANIFOLD_JOIN_TYPE_SQUARE  ? CrossSection::JoinType::Square
                                    : jt == MANIFOLD_JOIN_TYPE_ROUND   ? CrossSection::JoinType::Round
                                    : jt == MANIFOLD_JOIN_TYPE_MITER   ? CrossSection::JoinType::Miter
                                                                       : CrossSection::JoinType::Bevel;
  VF_ASSERT(g.i == (int)want);
  VF_END(); }
#elif VF_W == 8
extern "C" void h_fw() { unsigned op = vf_nondet_u32(); vf_assume(op <= 2);
  auto r = manifold_cross_section_boolean(mem, A(), B(), (ManifoldOpType)op); built(r);
  VF_ASSERT((const void*)g.other == (const void*)objB);
  const OpType want = op == MANIFOLD_ADD ? OpType::Add : op == MANIFOLD_SUBTRACT ? OpType::Subtract : OpType::Intersect;
  VF_ASSERT(g.i == (int)want);
  VF_END(); }
#endif

// C10: leaf predicates of the ear clipper (polygon.cpp EarClip::Vert).
// IsShort is the ONE path on which an ear is clipped without any convexity or
// containment test (ClipIfDegenerate, and the best-cost shortcut of
// ProcessEar).  That is only admissible because an ear with a "short" edge
// cannot be clockwise by more than the tolerance: IsShort(eps) must imply
// CCW(left, pos, right, eps) >= 0 - the very test the library's own
// CheckGeometry applies to output triangles.
#include <cstddef>
#include <map>
#include <memory>
#include <memory_resource>
#include <optional>
#include <set>
#include <utility>
#include <vector>
#include <iomanip>
#include "vf_harness.h"
#include "manifold/polygon.h"
#include "manifold/manifold.h"
#include "parallel.h"
#include "tree2d.h"
#include "utils.h"
#define private public   // EarClip::Vert is a private nested type
#include "polygon.cpp"
#undef private
using namespace manifold;
// quarter-lattice values: every product met below is exact in binary32 and
// therefore identical in the double replay
static double Q(int lo, int hi, double unit) { return (double)vf_range(lo, hi) * unit; }
extern "C" void h_isshort() {
  using EC = EarClip<>;
  EC::Vert L, P, R;
  L.pos = vec2(Q(-8, 8, 0.25), Q(-8, 8, 0.25));
  P.pos = vec2(Q(-8, 8, 0.25), Q(-8, 8, 0.25));
  R.pos = vec2(Q(-8, 8, 0.25), Q(-8, 8, 0.25));
  P.left = EC::VertItr(&L);
  P.right = EC::VertItr(&R);
  const double eps = Q(1, 32, 0.125);
  if (P.IsShort(eps)) {
    // clipping this ear emits triangle (left, pos, right): never clockwise beyond eps
    VF_ASSERT(CCW(L.pos, P.pos, R.pos, eps) >= 0);
    // and "short" means shorter than half of epsilon (exact on this lattice)
    const vec2 e = R.pos - P.pos;
    VF_ASSERT(4 * (e.x * e.x + e.y * e.y) < eps * eps);
  } else {
    const vec2 e = R.pos - P.pos;
    VF_ASSERT(!(4 * (e.x * e.x + e.y * e.y) < eps * eps));
  }
  VF_END();
}

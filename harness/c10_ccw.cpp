// C10 (leaf): the orientation predicate the triangulator and the convex fast
// path are built on.
#include "vf_harness.h"
#include "utils.h"
using namespace manifold;
#ifndef VF_R
#define VF_R 8
#endif
// tol == 0 on lattice points: CCW is the sign of the exact integer determinant
extern "C" void h_ccw_lattice() {
  int x[3], y[3];
  for (int i = 0; i < 3; i++) { x[i] = vf_range(-VF_R, VF_R); y[i] = vf_range(-VF_R, VF_R); }
  long det = (long)(x[1] - x[0]) * (y[2] - y[0]) - (long)(y[1] - y[0]) * (x[2] - x[0]);
  int got = CCW(vec2(x[0], y[0]), vec2(x[1], y[1]), vec2(x[2], y[2]), 0.0);
  VF_ASSERT(got == (det > 0 ? 1 : det < 0 ? -1 : 0));
  VF_END();
}
// any tolerance: swapping p1 and p2 negates the result; a repeated point is collinear
extern "C" void h_ccw_antisym() {
  vec2 p0(vf_finite(64), vf_finite(64)), p1(vf_finite(64), vf_finite(64)), p2(vf_finite(64), vf_finite(64));
  double tol = vf_finite(64);
  int a = CCW(p0, p1, p2, tol), b = CCW(p0, p2, p1, tol);
  VF_ASSERT(a == -b);
  VF_ASSERT(a >= -1 && a <= 1);
  VF_ASSERT(CCW(p0, p0, p2, tol) == 0 && CCW(p0, p1, p1, tol) == 0);
  VF_END();
}

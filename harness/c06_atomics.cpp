// C06 (narrow): the lock-free building blocks under interference.  One thread
// runs the real code; around each of its atomic accesses vf_env() lets "the
// other threads" perform up to VF_R legal steps of the same operation.
#include <atomic>
#include <memory>
#include <vector>
#include <map>
#include "vf_harness.h"
#define private public
#include "impl.h"
#undef private
#include "impl.cpp"
using namespace manifold;
#ifndef VF_R
#define VF_R 2
#endif
static int g_mode = 0;
static unsigned g_events = 0;
// ---- AtomicAdd<size_t>
static size_t* g_target;
static size_t g_delta[VF_R];
// ---- ReserveIDs
static uint32_t g_lo[VF_R], g_n[VF_R];
static bool g_in_env;
extern "C" void vf_env() {
  if (g_in_env || g_mode == 0) return;
  g_in_env = true;
  if (g_events < VF_R && vf_bool()) {
    if (g_mode == 1) {  // another thread completes an AtomicAdd(target, d)
      size_t d = vf_nondet_u64();
      vf_assume(d < (1ull << 40));
      g_delta[g_events] = d;
      *g_target += d;
    } else if (g_mode == 2) {  // another thread reserves m ids
      uint32_t m = vf_nondet_u32();
      vf_assume(m >= 1 && m < (1u << 20));
      g_lo[g_events] = Manifold::Impl::meshIDCounter_.load();
      g_n[g_events] = m;
      Manifold::Impl::meshIDCounter_.store(g_lo[g_events] + m);
    }
    g_events++;
  }
  g_in_env = false;
}
// AtomicAdd (CAS loop with compare_exchange_weak): linearisable fetch-add
extern "C" void h_atomic_add() {
  size_t target = vf_nondet_u64(), add = vf_nondet_u64();
  vf_assume(target < (1ull << 40) && add < (1ull << 40));
  const size_t init = target;
  g_target = &target;
  g_mode = 1;
  size_t old = AtomicAdd(target, add);
  g_mode = 0;
  size_t envsum = 0;
  bool isPrefix = (old == init);
  for (unsigned i = 0; i < VF_R; i++)
    if (i < g_events) {
      envsum += g_delta[i];
      if (old == init + envsum) isPrefix = true;
    }
  VF_ASSERT(isPrefix);                          // returned value = state right before its own add
  VF_ASSERT(target == init + add + envsum);     // no lost update
  VF_END();
}
// ReserveIDs: the returned range is disjoint from every concurrently reserved range
extern "C" void h_reserve_ids() {
  uint32_t start = vf_nondet_u32(), n = vf_nondet_u32();
  vf_assume(start < (1u << 30) && n >= 1 && n < (1u << 20));
  Manifold::Impl::meshIDCounter_.store(start);
  g_mode = 2;
  uint32_t r = Manifold::Impl::ReserveIDs(n);
  g_mode = 0;
  VF_ASSERT(r >= start);
  for (unsigned i = 0; i < VF_R; i++)
    if (i < g_events) VF_ASSERT(r + n <= g_lo[i] || g_lo[i] + g_n[i] <= r);
  uint32_t total = n;
  for (unsigned i = 0; i < VF_R; i++)
    if (i < g_events) total += g_n[i];
  VF_ASSERT(Manifold::Impl::meshIDCounter_.load() == start + total);
  VF_END();
}

// C01.c: compaction (sort.cpp GatherFaces / ReindexFace / Permute): permuting
// faces preserves the representation invariant and the mesh up to renumbering.
#include "vf_harness.h"
#include "sort.cpp"
#include "c01_common.h"
using namespace manifold;
#ifndef VF_T
#define VF_T 4
#endif
#ifndef VF_V
#define VF_V 4
#endif
extern "C" void h_gather_faces() {
  constexpr int n = 3 * VF_T;
  Manifold::Impl impl;
  impl.halfedge_.resize_nofill(n);
  int s0[n], p0[n];
  for (int h = 0; h < n; ++h) {
    int s = vf_int(), p = vf_int();
    vf_assume(s >= 0 && s < VF_V && p >= 0 && p < n);
    impl.halfedge_.Set(h, s, p, s);
    s0[h] = s;
    p0[h] = p;
  }
  impl.vertPos_.resize(VF_V, vec3(0.0));
  impl.meshRelation_.triRef.resize(VF_T, TriRef{0, 0, -1, 0});
  for (int t = 0; t < VF_T; t++) impl.meshRelation_.triRef[t].coplanarID = vf_int();
  int c0[VF_T];
  for (int t = 0; t < VF_T; t++) c0[t] = impl.meshRelation_.triRef[t].coplanarID;
  vf_assume(InvI(impl.halfedge_, n, VF_V));
  // an arbitrary permutation of the faces
  Vec<int> faceNew2Old(VF_T);
  bool used[VF_T];
  for (int t = 0; t < VF_T; t++) used[t] = false;
  for (int t = 0; t < VF_T; t++) {
    int o = vf_range(0, VF_T - 1);
    vf_assume(!used[o]);
    used[o] = true;
    faceNew2Old[t] = o;
  }
  impl.GatherFaces(faceNew2Old, nullptr);
  VF_ASSERT((int)impl.halfedge_.size() == n);
  VF_ASSERT(InvI(impl.halfedge_, n, VF_V));
  for (int t = 0; t < VF_T; t++) {
    const int o = faceNew2Old[t];
    VF_ASSERT(impl.meshRelation_.triRef[t].coplanarID == c0[o]);
    for (int i = 0; i < 3; i++) {
      VF_ASSERT(impl.halfedge_.Start(3 * t + i) == s0[3 * o + i]);
      // the pair is the image of the old pair
      const int np = impl.halfedge_.Pair(3 * t + i);
      VF_ASSERT(np >= 0 && np < n && faceNew2Old[np / 3] == p0[3 * o + i] / 3 && np % 3 == p0[3 * o + i] % 3);
    }
  }
  VF_END();
}

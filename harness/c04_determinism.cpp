// C04: the explicit order-normalisation steps that make results independent
// of the TBB schedule: FlagStore::run_par (edge_op.cpp) and the comparators
// that key the normalising sorts.
#include "vf_harness.h"
#include "edge_op.cpp"
using namespace manifold;
#ifndef VF_N
#define VF_N 4
#endif
// model of libstdc++ std::stable_sort on size_t* (outside the repo)
extern "C" void vf_stub_stable_sort_sz(size_t* first, size_t* last) {
  for (size_t* i = first; i != last; ++i)
    for (size_t* j = i; j != first && *j < *(j - 1); --j) {
      size_t t = *j;
      *j = *(j - 1);
      *(j - 1) = t;
    }
}
#if MANIFOLD_PAR == 1
// run_par calls f exactly on the flagged indices, in ascending order, for every
// chunking of the range, every chunk->worker assignment and every
// combine_each order
extern "C" void h_flagstore() {
  bool flag[VF_N];
  for (int i = 0; i < VF_N; i++) flag[i] = vf_bool();
#ifdef VF_LEN
  size_t n = VF_LEN;
#else
  size_t n = vf_nondet_u32();
  vf_assume(n <= VF_N);
#endif
  size_t calls[VF_N + 1];
  size_t ncalls = 0;
  FlagStore s;
  s.run_par(
      n, [&flag](size_t i) { return flag[i]; },
      [&](size_t i) {
        if (ncalls < VF_N) calls[ncalls] = i;
        ncalls++;
      });
  size_t want = 0;
  for (size_t i = 0; i < n; i++)
    if (flag[i]) {
      VF_ASSERT(want < ncalls && calls[want] == i);
      want++;
    }
  VF_ASSERT(ncalls == want);
  VF_END();
}
#endif

// comparators that key normalising sorts: strict weak orders whose
// equivalence classes are exactly "equal keys" (otherwise a stable sort lets
// insertion order, i.e. the schedule, leak into the output)
extern "C" void h_cmp_halfedge() {
  Halfedge a{vf_int(), vf_int(), vf_int(), vf_int()}, b{vf_int(), vf_int(), vf_int(), vf_int()}, c{vf_int(), vf_int(), vf_int(), vf_int()};
  VF_ASSERT(!(a < a));
  VF_ASSERT(!((a < b) && (b < a)));
  if ((a < b) && (b < c)) VF_ASSERT(a < c);
  if (!(a < b) && !(b < a)) VF_ASSERT(a.startVert == b.startVert && a.endVert == b.endVert);
  VF_ASSERT((a < b) == (a.startVert < b.startVert || (a.startVert == b.startVert && a.endVert < b.endVert)));
  VF_END();
}
extern "C" void h_cmp_tmpedge() {
  TmpEdge a(vf_int(), vf_int(), vf_int()), b(vf_int(), vf_int(), vf_int()), c(vf_int(), vf_int(), vf_int());
  VF_ASSERT(a.first <= a.second);
  VF_ASSERT(!(a < a));
  VF_ASSERT(!((a < b) && (b < a)));
  if ((a < b) && (b < c)) VF_ASSERT(a < c);
  if (!(a < b) && !(b < a)) VF_ASSERT(a.first == b.first && a.second == b.second);
  VF_END();
}

// C19: tolerance/epsilon bookkeeping of the real Boolean3::Result
// (boolean_result.cpp).  The operands are two small CONCRETE closed meshes
// ("doubled triangles": two opposed triangles over the same three vertices)
// with disjoint bounding boxes, so the real Boolean3 constructor takes its
// no-overlap early-out and Result runs its real pipeline (inclusion numbers,
// vertex duplication, SizeOutput, Append*Edges) on concrete data up to the
// call of Face2Tri (another TU), which is redirected to a stub that checks the
// bookkeeping on the output Impl.  Symbolic: epsilon_ and tolerance_ of both
// operands (any finite values with epsilon <= tolerance).
#include <atomic>
#include <memory>
#include <vector>
#include <map>
#include "vf_harness.h"
#define private public
#include "impl.h"
#include "boolean3.h"
#undef private
#include "boolean_result.cpp"
#include "boolean3.cpp"
using namespace manifold;
#ifndef VF_OP
#define VF_OP Add
#endif
static ExecutionParams g_params;
extern "C" ExecutionParams* vf_stub_ManifoldParams() { return &g_params; }

static double g_epsP, g_tolP, g_epsQ, g_tolQ;
extern "C" void vf_stub_Face2Tri(Manifold::Impl* self, const void* faceEdge, const void* faceHalfedges,
                                 const void* halfedgeRef, bool allowConvex, void* ctx) {
  VF_ASSERT(self->epsilon_ >= g_epsP && self->epsilon_ >= g_epsQ);
  VF_ASSERT(self->tolerance_ >= g_tolP && self->tolerance_ >= g_tolQ);
  VF_ASSERT(self->tolerance_ >= self->epsilon_);
#ifdef VF_WITNESS
  vf_witness();
#endif
  vf_cut();
}

static void doubled_triangle(Manifold::Impl& m, double x0) {
  m.vertPos_.resize(3, vec3(0.0));
  m.vertPos_[0] = vec3(x0, 0.0, 0.0);
  m.vertPos_[1] = vec3(x0 + 1.0, 0.0, 0.0);
  m.vertPos_[2] = vec3(x0, 1.0, 0.0);
  m.halfedge_.resize(6);
  m.halfedge_.Set(0, 0, 5, 0);  // 0 -> 1
  m.halfedge_.Set(1, 1, 4, 1);  // 1 -> 2
  m.halfedge_.Set(2, 2, 3, 2);  // 2 -> 0
  m.halfedge_.Set(3, 0, 2, 0);  // 0 -> 2
  m.halfedge_.Set(4, 2, 1, 2);  // 2 -> 1
  m.halfedge_.Set(5, 1, 0, 1);  // 1 -> 0
  m.faceNormal_.resize(2, vec3(0.0));
  m.faceNormal_[0] = vec3(0.0, 0.0, 1.0);
  m.faceNormal_[1] = vec3(0.0, 0.0, -1.0);
  m.vertNormal_.resize(3, vec3(0.0, 0.0, 1.0));
  m.meshRelation_.triRef.resize(2, TriRef{0, 0, -1, 0});
  m.bBox_ = Box(vec3(x0, 0.0, 0.0), vec3(x0 + 1.0, 1.0, 0.0));
}

extern "C" void h_boolean_tolerance() {
  Manifold::Impl p, q;
  doubled_triangle(p, 0.0);
  doubled_triangle(q, 10.0);
  g_epsP = p.epsilon_ = vf_finite(1e100);
  g_tolP = p.tolerance_ = vf_finite(1e100);
  g_epsQ = q.epsilon_ = vf_finite(1e100);
  g_tolQ = q.tolerance_ = vf_finite(1e100);
  vf_assume(g_epsP >= 0 && g_epsQ >= 0 && g_tolP >= g_epsP && g_tolQ >= g_epsQ);
  Boolean3 b(p, q, OpType::VF_OP, nullptr);
  Manifold::Impl r = b.Result(OpType::VF_OP);
  VF_END();
}

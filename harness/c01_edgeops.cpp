// C01.b: single topological edit steps of edge_op.cpp from an ARBITRARY
// halfedge structure satisfying the representation invariant I.
#include "vf_harness.h"
#include "edge_op.cpp"
#include "c01_common.h"
using namespace manifold;
#ifndef VF_T
#define VF_T 4
#endif
#ifndef VF_V
#define VF_V 4
#endif
static void symmesh(Manifold::Impl& impl, bool allowDead) {
  constexpr int n = 3 * VF_T;
  impl.halfedge_.resize_nofill(n);
  for (int h = 0; h < n; ++h) {
    int s = vf_int(), p = vf_int();
    vf_assume(s >= -1 && s < VF_V && p >= -1 && p < n);
    if (!allowDead) vf_assume(s >= 0 && p >= 0);
    impl.halfedge_.Set(h, s, p, s);
  }
  impl.vertPos_.resize(VF_V, vec3(0.0));
  impl.faceNormal_.resize(VF_T, vec3(0.0, 0.0, 1.0));
  impl.meshRelation_.triRef.resize(VF_T, TriRef{0, 0, -1, 0});
  vf_assume(InvI(impl.halfedge_, n, VF_V));
}
// RemoveIfFolded(edge) on any live edge preserves I; vertices it marks NaN are
// no longer referenced by any live halfedge
extern "C" void h_remove_if_folded() {
  Manifold::Impl impl;
  symmesh(impl, true);
  constexpr int n = 3 * VF_T;
  int edge = vf_range(0, n - 1);
  vf_assume(impl.halfedge_.Pair(edge) >= 0);
  impl.RemoveIfFolded(edge);
  VF_ASSERT((int)impl.halfedge_.size() == n && (int)impl.vertPos_.size() == VF_V);
  VF_ASSERT(InvI(impl.halfedge_, n, VF_V));
  VF_END();
}
// PairUp + CollapseTri: collapsing a triangle whose edge 0 has zero length
// (start == end after an edge collapse) keeps I on the rest of the mesh.
extern "C" void h_collapse_tri() {
  Manifold::Impl impl;
  constexpr int n = 3 * VF_T;
  // build a state that satisfies I except that triangle t is degenerate:
  // start(3t) == start(3t+1) (its edge 0 has been collapsed) and its edge 0 is unpaired
  impl.halfedge_.resize_nofill(n);
  int t = vf_range(0, VF_T - 1);
  for (int h = 0; h < n; ++h) {
    int s = vf_int(), p = vf_int();
    vf_assume(s >= 0 && s < VF_V && p >= -1 && p < n);
    impl.halfedge_.Set(h, s, p, s);
  }
  impl.vertPos_.resize(VF_V, vec3(0.0));
  const Halfedges& he = impl.halfedge_;
  const int e0 = 3 * t, e1 = 3 * t + 1, e2 = 3 * t + 2;
  vf_assume(he.Start(e0) == he.Start(e1) && he.Start(e2) != he.Start(e0));
  vf_assume(he.Pair(e0) == -1);
  const int p1 = he.Pair(e1), p2 = he.Pair(e2);
  vf_assume(p1 >= 0 && p2 >= 0 && p1 / 3 != t && p2 / 3 != t && p1 != p2);
  vf_assume(he.Pair(p1) == e1 && he.Pair(p2) == e2);
  vf_assume(he.Start(p1) == he.Start(e2) && he.Start(nx(p1)) == he.Start(e1));
  vf_assume(he.Start(p2) == he.Start(e0) && he.Start(nx(p2)) == he.Start(e2));
  // all other halfedges satisfy I locally
  for (int h = 0; h < n; ++h)
    if (h / 3 != t && h != p1 && h != p2) {
      const int p = he.Pair(h);
      vf_assume(p >= 0 && p != h && p / 3 != t && he.Pair(p) == h && he.Start(p) == he.Start(nx(h)) && he.Start(nx(p)) == he.Start(h) && he.Start(h) != he.Start(nx(h)));
    }
  for (int h = 0; h < n; ++h)
    if (h / 3 != t) vf_assume(he.Start(h) != he.Start(nx(h)));
  impl.CollapseTri(ivec3(e0, e1, e2));
  VF_ASSERT(InvI(impl.halfedge_, n, VF_V));
  VF_ASSERT(impl.halfedge_.Pair(e0) == -1 && impl.halfedge_.Start(e1) == -1);
  VF_END();
}

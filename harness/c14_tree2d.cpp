// C14: the polygon k-d tree (tree2d.h QueryTwoDTree, tree2d.cpp
// BuildTwoDTree): a rectangle query must visit exactly the points the closed
// rectangle contains, each once.
//
// Two obligations, composed through the tree's representation invariant INV:
//   h_query: for ANY array satisfying INV (ties with the split value may sit
//            on either side) and ANY rectangle, the query is exact;
//   h_build: BuildTwoDTree establishes INV and permutes the points.
#include "vf_harness.h"
#include "tree2d.cpp"
using namespace manifold;
#ifndef VF_N
#define VF_N 9
#endif
#ifndef VF_BND
#define VF_BND 1e100
#endif

// INV(lo, n, sortX): what BuildTwoDTreeImpl(points[lo, lo+n), sortX) leaves:
// the middle element (index n/2) splits the range by the level's coordinate,
// ties allowed on both sides; both halves satisfy INV for the other coordinate.
// Ranges of <= 8 points are scanned linearly by the query, nothing is required.
static bool inv(const PolyVert* p, int lo, int n, bool sortX) {
  if (n <= 8) return true;
  const int m = lo + n / 2;
  const double s = sortX ? p[m].pos.x : p[m].pos.y;
  bool ok = true;
  for (int i = lo; i < lo + n; i++) {
    const double v = sortX ? p[i].pos.x : p[i].pos.y;
    if (i < m && !(v <= s)) ok = false;
    if (i > m && !(v >= s)) ok = false;
  }
  return ok && inv(p, lo, n / 2, !sortX) && inv(p, m + 1, n - n / 2 - 1, !sortX);
}

extern "C" void h_query() {
  PolyVert pts[VF_N];
  int seen[VF_N];
  for (int i = 0; i < VF_N; i++) {
    pts[i].pos = vec2(vf_finite(VF_BND), vf_finite(VF_BND));
    pts[i].idx = i;
    seen[i] = 0;
  }
  vf_assume(inv(pts, 0, VF_N, true));
  Rect r;  // any rectangle, also empty / inverted ones
  r.min = vec2(vf_finite(VF_BND), vf_finite(VF_BND));
  r.max = vec2(vf_finite(VF_BND), vf_finite(VF_BND));
  QueryTwoDTree(VecView<PolyVert>(pts, VF_N), r, [&seen](const PolyVert& p) {
    VF_ASSERT(p.idx >= 0 && p.idx < VF_N);
    if (p.idx >= 0 && p.idx < VF_N) seen[p.idx]++;
  });
  for (int i = 0; i < VF_N; i++) {
    // independent closed-interval oracle (not Rect::Contains)
    const bool in = pts[i].pos.x >= r.min.x && pts[i].pos.x <= r.max.x &&
                    pts[i].pos.y >= r.min.y && pts[i].pos.y <= r.max.y;
    VF_ASSERT(seen[i] == (in ? 1 : 0));
  }
  VF_END();
}

extern "C" void h_build() {
  PolyVert pts[VF_N];
  double x[VF_N], y[VF_N];
  int cnt[VF_N];
  for (int i = 0; i < VF_N; i++) {
    // a small value range makes ties with the median frequent
    x[i] = (double)vf_range(-2, 2);
    y[i] = (double)vf_range(-2, 2);
    pts[i].pos = vec2(x[i], y[i]);
    pts[i].idx = i;
    cnt[i] = 0;
  }
  BuildTwoDTree(VecView<PolyVert>(pts, VF_N));
  VF_ASSERT(inv(pts, 0, VF_N, true));
  for (int i = 0; i < VF_N; i++) {
    const int id = pts[i].idx;
    VF_ASSERT(id >= 0 && id < VF_N);
    if (id >= 0 && id < VF_N) {
      cnt[id]++;
      VF_ASSERT(pts[i].pos.x == x[id] && pts[i].pos.y == y[id]);
    }
  }
  for (int i = 0; i < VF_N; i++) VF_ASSERT(cnt[i] == 1);
  VF_END();
}

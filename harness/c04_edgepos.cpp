// C04.d: EdgePos::operator< (boolean_result.cpp) orders new edge vertices by
// position, then collisionId "to make things deterministic".
#include "vf_harness.h"
#include "boolean_result.cpp"
using namespace manifold;
static EdgePos E() {
  EdgePos e;
  e.edgePos = vf_finite(1e300);
  e.vert = vf_int();
  e.collisionId = vf_int();
  e.isStart = vf_bool();
  return e;
}
extern "C" void h_cmp_edgepos() {
  EdgePos a = E(), b = E(), c = E();
  VF_ASSERT(!(a < a));
  VF_ASSERT(!((a < b) && (b < a)));
  if ((a < b) && (b < c)) VF_ASSERT(a < c);
  // total on distinct (edgePos, collisionId) keys
  if (!(a < b) && !(b < a)) VF_ASSERT(a.edgePos == b.edgePos && a.collisionId == b.collisionId);
  VF_END();
}

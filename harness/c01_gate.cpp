// C01: the gate.  Impl::IsManifold() (properties.cpp CheckHalfedges) is what
// the import constructor, and the library's own assertions, use to decide
// whether a halfedge structure is an oriented manifold.  For EVERY halfedge
// array (indices in range or -1, as CreateHalfedges produces them) its verdict
// must equal the representation invariant I written independently in
// c01_common.h, with whole-triangle tombstones allowed.
#include <atomic>
#include <memory>
#include <vector>
#include <map>
#include "vf_harness.h"
#define private public
#include "impl.h"
#undef private
#include "properties.cpp"
#include "c01_common.h"
using namespace manifold;
#ifndef VF_T
#define VF_T 4
#endif
#ifndef VF_V
#define VF_V 4
#endif
extern "C" void vf_stub_MakeEmpty(Manifold::Impl* self, int status) {}
// I, except that tombstones are recognised the way the gate sees them: a
// halfedge whose start, end and pair are all -1
static bool Spec(const Halfedges& he, int n) {
  bool ok = true;
  for (int h = 0; h < n; ++h) {
    const int s = he.Start(h), e = he.Start(nx(h)), p = he.Pair(h);
    if (s == -1 && e == -1 && p == -1) continue;  // tombstone
    // a live halfedge: its whole triangle is live, it has a partner, and the
    // partner is the opposite directed edge and points back
    if (e == -1 || he.Start(nx(nx(h))) == -1 || p == -1) { ok = false; continue; }
    ok = ok && he.Pair(p) == h && s != e && he.Start(p) == e && he.Start(nx(p)) == s;
  }
  return ok;
}
extern "C" void h_ismanifold_gate() {
  constexpr int n = 3 * VF_T;
  Manifold::Impl impl;
  impl.halfedge_.resize_nofill(n);
  for (int h = 0; h < n; ++h) {
    int s = vf_int(), p = vf_int();
    vf_assume(s >= -1 && s < VF_V && p >= -1 && p < n);
    impl.halfedge_.Set(h, s, p, s);
  }
  const bool gate = impl.IsManifold();
  VF_ASSERT(gate == Spec(impl.halfedge_, n));
  // and on fully live structures the gate is exactly invariant I minus the vertex range
  bool live = true;
  for (int h = 0; h < n; ++h)
    if (impl.halfedge_.Start(h) < 0 || impl.halfedge_.Pair(h) < 0) live = false;
  if (live && gate) VF_ASSERT(InvI(impl.halfedge_, n, VF_V));
  VF_END();
}

// C18 (BoundingBox and every query built on boxes) / C14: struct Box and
// struct Rect (include/manifold/common.h) against their set-theoretic
// definitions, written independently here: a box is the closed product of
// intervals [min, max]; Contains / DoesOverlap / Union / IsFinite follow.
// (C20 compares the C binding with these same C++ members, so it cannot see a
// defect in the members themselves.)
#include "vf_harness.h"
#include "manifold/common.h"
using namespace manifold;
#ifndef VF_BND
#define VF_BND 1e100
#endif
static double F() { return vf_finite(VF_BND); }
static double A() { return vf_nondet_f64(); }  // any bit pattern
static bool in1(double lo, double hi, double x) { return lo <= x && x <= hi; }
extern "C" void h_box_spec() {
  Box a, b;
  a.min = vec3(F(), F(), F()); a.max = vec3(F(), F(), F());   // min <= max NOT assumed (empty boxes included)
  b.min = vec3(F(), F(), F()); b.max = vec3(F(), F(), F());
  const vec3 p(F(), F(), F());
  // membership
  const bool pin = in1(a.min.x, a.max.x, p.x) && in1(a.min.y, a.max.y, p.y) && in1(a.min.z, a.max.z, p.z);
  VF_ASSERT(a.Contains(p) == pin);
  VF_ASSERT(a.DoesOverlap(p) == (in1(a.min.x, a.max.x, p.x) && in1(a.min.y, a.max.y, p.y)));  // documented: projected in z
  // box in box: every coordinate interval nested
  const bool bin = a.min.x <= b.min.x && b.max.x <= a.max.x && a.min.y <= b.min.y && b.max.y <= a.max.y &&
                   a.min.z <= b.min.z && b.max.z <= a.max.z;
  VF_ASSERT(a.Contains(b) == bin);
  // closed-interval overlap, symmetric
  const bool ov = a.min.x <= b.max.x && b.min.x <= a.max.x && a.min.y <= b.max.y && b.min.y <= a.max.y &&
                  a.min.z <= b.max.z && b.min.z <= a.max.z;
  VF_ASSERT(a.DoesOverlap(b) == ov);
  VF_ASSERT(a.DoesOverlap(b) == b.DoesOverlap(a));
  // union = smallest box containing both; with a point likewise
  const Box u = a.Union(b);
  for (int k = 0; k < 3; k++) {
    VF_ASSERT(u.min[k] == (a.min[k] < b.min[k] ? a.min[k] : b.min[k]));
    VF_ASSERT(u.max[k] == (a.max[k] > b.max[k] ? a.max[k] : b.max[k]));
  }
  Box c = a;
  c.Union(p);
  for (int k = 0; k < 3; k++) {
    VF_ASSERT(c.min[k] == (a.min[k] < p[k] ? a.min[k] : p[k]));
    VF_ASSERT(c.max[k] == (a.max[k] > p[k] ? a.max[k] : p[k]));
  }
  VF_ASSERT(c.Contains(p));
  // two-corner constructor orders the corners
  const Box d(a.min, a.max);
  for (int k = 0; k < 3; k++) VF_ASSERT(d.min[k] <= d.max[k] && (d.min[k] == a.min[k] || d.min[k] == a.max[k]));
  // size, scale
  for (int k = 0; k < 3; k++) VF_ASSERT(a.Size()[k] == a.max[k] - a.min[k]);
  double s = 0;
  for (int k = 0; k < 3; k++) {
    const double lo = a.min[k] < 0 ? -a.min[k] : a.min[k], hi = a.max[k] < 0 ? -a.max[k] : a.max[k];
    if (lo > s) s = lo;
    if (hi > s) s = hi;
  }
  VF_ASSERT(a.Scale() == s);
  VF_ASSERT((a == b) == (a.min.x == b.min.x && a.min.y == b.min.y && a.min.z == b.min.z && a.max.x == b.max.x &&
                         a.max.y == b.max.y && a.max.z == b.max.z));
  VF_END();
}
extern "C" void h_box_finite() {  // every bit pattern
  Box a;
  a.min = vec3(A(), A(), A()); a.max = vec3(A(), A(), A());
  bool fin = true;
  for (int k = 0; k < 3; k++) {
    if (!(a.min[k] - a.min[k] == 0)) fin = false;
    if (!(a.max[k] - a.max[k] == 0)) fin = false;
  }
  VF_ASSERT(a.IsFinite() == fin);
  // the default box is empty: contains nothing, and is the identity of Union
  const Box e;
  const vec3 p(F(), F(), F());
  VF_ASSERT(!e.Contains(p));
  Box b;
  b.min = vec3(F(), F(), F()); b.max = vec3(F(), F(), F());
  const Box u = e.Union(b);
  VF_ASSERT(u == b);
  VF_END();
}
extern "C" void h_rect_spec() {
  Rect a, b;
  a.min = vec2(F(), F()); a.max = vec2(F(), F());
  b.min = vec2(F(), F()); b.max = vec2(F(), F());
  const vec2 p(F(), F());
  VF_ASSERT(a.Contains(p) == (in1(a.min.x, a.max.x, p.x) && in1(a.min.y, a.max.y, p.y)));
  VF_ASSERT(a.Contains(b) == (a.min.x <= b.min.x && b.max.x <= a.max.x && a.min.y <= b.min.y && b.max.y <= a.max.y));
  const bool ov = a.min.x <= b.max.x && b.min.x <= a.max.x && a.min.y <= b.max.y && b.min.y <= a.max.y;
  VF_ASSERT(a.DoesOverlap(b) == ov && b.DoesOverlap(a) == ov);
  const Rect u = a.Union(b);
  for (int k = 0; k < 2; k++) {
    VF_ASSERT(u.min[k] == (a.min[k] < b.min[k] ? a.min[k] : b.min[k]));
    VF_ASSERT(u.max[k] == (a.max[k] > b.max[k] ? a.max[k] : b.max[k]));
  }
  Rect c = a;
  c.Union(p);
  VF_ASSERT(c.Contains(p));
  for (int k = 0; k < 2; k++) VF_ASSERT(a.Size()[k] == a.max[k] - a.min[k]);
  VF_ASSERT(a.IsEmpty() == (a.max.x <= a.min.x || a.max.y <= a.min.y));
  VF_END();
}

// C07.b / C08: the exporter GetMeshGLImpl (impl.h) on a small symbolic Impl:
// run table, face IDs, triangle permutation, and that every per-triangle datum
// (vertex indices, tangents, face ID, run relation) follows its triangle.
#include <atomic>
#include <memory>
#include <vector>
#include <map>
#include "vf_harness.h"
#define private public
#include "impl.h"
#undef private
#include "impl.cpp"
using namespace manifold;
#ifndef VF_T
#define VF_T 3
#endif
#ifndef VF_V
#define VF_V 3
#endif
#ifndef VF_M
#define VF_M 3  // mesh instances in meshIDtransform (ids 0..VF_M-1)
#endif
extern "C" void h_export() {
  Manifold::Impl impl;
  impl.vertPos_.resize(VF_V, vec3(0.0));
  for (int v = 0; v < VF_V; v++) impl.vertPos_[v] = vec3(vf_finite(1e100), vf_finite(1e100), vf_finite(1e100));
  impl.halfedge_.resize(3 * VF_T);
  impl.halfedgeTangent_.resize(3 * VF_T, vec4(0.0));
  impl.meshRelation_.triRef.resize(VF_T, TriRef{0, 0, -1, 0});
  impl.meshRelation_.originalID = -1;  // a derived mesh: triangles get sorted into runs
  int origOf[VF_M];
  for (int m = 0; m < VF_M; m++) {
    Manifold::Impl::Relation rel;
    origOf[m] = vf_range(0, 2);
    rel.originalID = origOf[m];
    for (int c = 0; c < 4; c++)
      for (int r = 0; r < 3; r++) rel.transform[c][r] = vf_finite(1e100);
    rel.backSide = vf_bool();
    rel.hasNormals = vf_bool();
    impl.meshRelation_.meshIDtransform[m] = rel;
  }
  for (int t = 0; t < VF_T; t++) {
    TriRef& ref = impl.meshRelation_.triRef[t];
    ref.meshID = vf_range(0, VF_M - 1);
    ref.originalID = origOf[ref.meshID];
    ref.faceID = t + 100;  // distinct: identifies the source triangle in the output
    ref.coplanarID = vf_int();
    for (int i = 0; i < 3; i++) {
      const int s = vf_range(0, VF_V - 1);
      impl.halfedge_.Set(3 * t + i, s, vf_int(), s);
      impl.halfedgeTangent_[3 * t + i] = vec4(vf_finite(1e100), vf_finite(1e100), vf_finite(1e100), vf_finite(1e100));
    }
  }
  const MeshGL64 out = GetMeshGLImpl<double, uint64_t>(impl, -1);
  // ---- run table shape
  const size_t nRun = out.runOriginalID.size();
  VF_ASSERT(out.runIndex.size() == nRun + 1);
  VF_ASSERT(out.runFlags.size() == nRun && out.runTransform.size() == 12 * nRun);
  VF_ASSERT(nRun >= 1 && nRun <= VF_M);
  VF_ASSERT(out.runIndex[0] == 0 && out.runIndex[nRun] == 3 * VF_T);
  for (size_t r = 0; r < VF_M; r++)
    if (r < nRun) VF_ASSERT(out.runIndex[r] <= out.runIndex[r + 1] && out.runIndex[r] % 3 == 0);
  // runs that own triangles are sorted by originalID
  for (size_t r = 0; r + 1 < VF_M; r++)
    if (r + 1 < nRun && out.runIndex[r + 1] < 3 * VF_T && out.runIndex[r] < out.runIndex[r + 1])
      VF_ASSERT(out.runOriginalID[r] <= out.runOriginalID[r + 1]);
  // ---- every output triangle is one source triangle, with all of its data
  VF_ASSERT(out.triVerts.size() == 3 * VF_T && out.faceID.size() == VF_T && out.halfedgeTangent.size() == 12 * VF_T);
  bool seen[VF_T];
  for (int t = 0; t < VF_T; t++) seen[t] = false;
  for (int t = 0; t < VF_T; t++) {
    const int o = (int)out.faceID[t] - 100;
    VF_ASSERT(o >= 0 && o < VF_T && !seen[o]);
    if (o < 0 || o >= VF_T) continue;
    seen[o] = true;
    for (int i = 0; i < 3; i++) {
      VF_ASSERT((int)out.triVerts[3 * t + i] == impl.halfedge_.Start(3 * o + i));
      for (int j = 0; j < 4; j++)
        VF_ASSERT(out.halfedgeTangent[4 * (3 * t + i) + j] == impl.halfedgeTangent_[3 * o + i][j]);
    }
    // the run this triangle sits in carries its own relation
    size_t run = 0;
    for (size_t r = 0; r < VF_M; r++)
      if (r < nRun && out.runIndex[r] <= (uint64_t)(3 * t) && (uint64_t)(3 * t) < out.runIndex[r + 1]) run = r;
    const int mid = impl.meshRelation_.triRef[o].meshID;
    const Manifold::Impl::Relation& rel = impl.meshRelation_.meshIDtransform[mid];
    VF_ASSERT((int)out.runOriginalID[run] == rel.originalID);
    VF_ASSERT(((out.runFlags[run] & 1) != 0) == rel.backSide && ((out.runFlags[run] & 2) != 0) == rel.hasNormals);
    for (int c = 0; c < 4; c++)
      for (int r = 0; r < 3; r++) VF_ASSERT(out.runTransform[12 * run + 3 * c + r] == rel.transform[c][r]);
  }
  // positions exported verbatim (no properties)
  VF_ASSERT(out.numProp == 3 && out.vertProperties.size() == 3 * VF_V);
  for (int v = 0; v < VF_V; v++)
    for (int k = 0; k < 3; k++) VF_ASSERT(out.vertProperties[3 * v + k] == impl.vertPos_[v][k]);
  VF_END();
}

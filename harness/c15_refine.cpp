// C15: the control skeleton of Impl::Refine (smoothing.cpp) under cancellation.
// Impl::SortGeometry(ctx) returns SILENTLY when it observes cancellation,
// leaving a partially sorted mesh; every caller has to re-check the flag
// afterwards (Hull, LevelSet, the import constructor and Boolean3::Result do).
// Here the real Refine runs on a small concrete mesh with its heavy callees
// replaced by stubs: Subdivide returns one barycentric entry (so the early
// "nothing to do" return is not taken), SortGeometry is a stub that does what
// the real one does at each of its cancellation checks: it looks at the flag -
// the sticky nondeterministic oracle - and returns.  Obligation: whenever
// cancellation became visible anywhere in Refine, the Impl ends up Cancelled,
// never NoError.
#include <atomic>
#include <functional>
#include <memory>
#include <vector>
#include <map>
#include <unordered_map>
#include "vf_harness.h"
#define private public
#include "impl.h"
#undef private
#include "execution_impl.h"
#include "smoothing.cpp"
using namespace manifold;

static int g_status = 0, g_emptied = 0, g_sorted = 0;
extern "C" {
void vf_stub_MakeEmpty(Manifold::Impl* self, int status) {
  self->status_ = static_cast<Manifold::Error>(status);
  self->halfedge_.resize(0);
  self->vertPos_.resize(0);
  g_emptied++;
  g_status = status;
}
// Vec<Barycentric> Impl::Subdivide(std::function<...>, bool): one new vertex
void vf_stub_Subdivide(Vec<Barycentric>* ret, Manifold::Impl* self, std::function<int(vec3, vec4, vec4)>* edgeDivisions, bool keepInterior) {
  new (ret) Vec<Barycentric>(1, Barycentric{0, vec4(1.0, 0.0, 0.0, 0.0)});
}
void vf_stub_noop(Manifold::Impl* self) {}
void vf_stub_SortGeometry(Manifold::Impl* self, ExecutionContext::Impl* ctx) {
  g_sorted++;
  // the real SortGeometry: "if (IsCancelled(ctx)) return;" after each of its four stages
  for (int stage = 0; stage < 4; stage++)
    if (IsCancelled(ctx)) return;
}
}

extern "C" void h_refine_cancel() {
  Manifold::Impl m;
  // a doubled triangle (closed, 2 triangles) without tangents
  m.vertPos_.resize(3, vec3(0.0));
  m.vertPos_[1] = vec3(1.0, 0.0, 0.0);
  m.vertPos_[2] = vec3(0.0, 1.0, 0.0);
  m.halfedge_.resize(6);
  m.halfedge_.Set(0, 0, 5, 0); m.halfedge_.Set(1, 1, 4, 1); m.halfedge_.Set(2, 2, 3, 2);
  m.halfedge_.Set(3, 0, 2, 0); m.halfedge_.Set(4, 2, 1, 2); m.halfedge_.Set(5, 1, 0, 1);
  m.faceNormal_.resize(2, vec3(0.0, 0.0, 1.0));
  m.meshRelation_.triRef.resize(2, TriRef{0, 0, -1, 0});
  ExecutionContext::Impl ctx;
  vf_register_cancel(reinterpret_cast<unsigned char*>(&ctx.cancel));
  m.Refine([](vec3, vec4, vec4) { return 1; }, false, &ctx);
  if (vf_cancel_fired()) {
    // cancellation was observed by some check inside Refine or its SortGeometry
    VF_ASSERT(m.status_ == Manifold::Error::Cancelled);
    VF_ASSERT(g_emptied == 1);
  } else {
    VF_ASSERT(m.status_ == Manifold::Error::NoError && g_emptied == 0 && g_sorted == 1);
  }
  VF_END();
}

// C02: the symbolically perturbed predicate cascade of the 3D Boolean
// (shared.h Shadows/Interpolate/Intersect, boolean3.cpp Shadow01/Kernel02/...).
#include "vf_harness.h"
#include "boolean3.cpp"
using namespace manifold;
#ifndef VF_BND
#define VF_BND 1e100
#endif
static double F() { return vf_finite(VF_BND); }
static vec3 V() { return vec3(F(), F(), F()); }

// C02.b: Shadows is a perturbed strict order: exactly one of p<q, q<p holds
// unless p==q and dir==0 (then neither)
extern "C" void h_shadows() {
  double p = F(), q = F(), d = F();
  bool a = Shadows(p, q, d), b = Shadows(q, p, -d);
  if (p == q && d == 0) VF_ASSERT(!a && !b);
  else VF_ASSERT(a != b);
  VF_ASSERT(a == (p == q ? d < 0 : p < q));
  VF_ASSERT(withSign(true, d) == d && withSign(false, d) == -d);
  VF_END();
}

// C02.a: internal contracts of the real Kernel02 for all finite operands:
// harvested ASSERTs (Interpolate domain, k == 2, vector bounds) + |s02| <= 1,
// z02 finite when s02 != 0
template <bool expandP, bool forward>
static void k02() {
  Manifold::Impl a, b;
  a.vertPos_.resize(1, vec3(0.0));
  a.vertNormal_.resize(1, vec3(0.0));
  a.vertPos_[0] = V();
  a.vertNormal_[0] = V();
  b.vertPos_.resize(3, vec3(0.0));
  b.vertNormal_.resize(3, vec3(0.0));
  for (int i = 0; i < 3; i++) {
    b.vertPos_[i] = V();
    b.vertNormal_[i] = V();
  }
  b.faceNormal_.resize(4, vec3(0.0));
  for (int i = 0; i < 4; i++) b.faceNormal_[i] = V();
  b.halfedge_.resize(12);
  int v0 = vf_range(0, 2), v1 = vf_range(0, 2), v2 = vf_range(0, 2);
  vf_assume(v0 != v1 && v1 != v2 && v0 != v2);
  const int tv[3] = {v0, v1, v2};
  for (int i = 0; i < 3; i++) {
    b.halfedge_.Set(i, tv[i], 3 * (i + 1), tv[i]);  // pair lives in neighbour tri i+1
    b.halfedge_.Set(3 * (i + 1), tv[(i + 1) % 3], i, tv[(i + 1) % 3]);
    b.halfedge_.Set(3 * (i + 1) + 1, tv[i], -1, tv[i]);
    b.halfedge_.Set(3 * (i + 1) + 2, -1, -1, -1);
  }
  Kernel02<expandP, forward> k{a, b};
  auto r = k(0, 0);
  VF_ASSERT(r.first >= -1 && r.first <= 1);
  if (r.first != 0) VF_ASSERT(r.second == r.second);  // not NaN
  VF_END();
}
extern "C" void h_k02_tt() { k02<true, true>(); }
extern "C" void h_k02_ff() { k02<false, false>(); }
extern "C" void h_k02_ft() { k02<false, true>(); }
extern "C" void h_k02_tf() { k02<true, false>(); }

// C02.d containment: Interpolate's y,z lie between the endpoint values
// (decided at a reduced IEEE format; magnitude bound keeps intermediates finite)
extern "C" void h_interp_contain() {
  vec3 aL = V(), aR = V();
  double x = F();
  vf_assume((x - aL.x) * (x - aR.x) <= 0);  // documented domain
  vec2 yz = Interpolate(aL, aR, x);
  double ylo = aL.y < aR.y ? aL.y : aR.y, yhi = aL.y < aR.y ? aR.y : aL.y;
  double zlo = aL.z < aR.z ? aL.z : aR.z, zhi = aL.z < aR.z ? aR.z : aL.z;
  VF_ASSERT(yz[0] >= ylo && yz[0] <= yhi);
  VF_ASSERT(yz[1] >= zlo && yz[1] <= zhi);
  VF_END();
}

// C02.b: an edge is named by either of its two paired halfedges; the
// perturbed vertex/edge predicate Shadow01 must give the same answer for both
// names (its tie-break direction is a property of the EDGE: the sum of the two
// adjacent face normals).  All operands symbolic, including exact ties.
template <bool expandP, bool forward>
static void s01sym() {
  Manifold::Impl a, b;
  a.vertPos_.resize(1, vec3(0.0));
  a.vertNormal_.resize(1, vec3(0.0));
  a.vertPos_[0] = V();
  a.vertNormal_[0] = V();
  b.vertPos_.resize(2, vec3(0.0));
  b.vertNormal_.resize(2, vec3(0.0));
  for (int i = 0; i < 2; i++) {
    b.vertPos_[i] = V();
    b.vertNormal_[i] = V();
  }
  b.faceNormal_.resize(2, vec3(0.0));
  b.faceNormal_[0] = V();
  b.faceNormal_[1] = V();
  b.halfedge_.resize(6);
  // halfedge 0 (face 0) runs 0 -> 1, its pair is halfedge 3 (face 1) running 1 -> 0
  b.halfedge_.Set(0, 0, 3, 0);
  b.halfedge_.Set(1, 1, -1, 1);
  b.halfedge_.Set(2, -1, -1, -1);
  b.halfedge_.Set(3, 1, 0, 1);
  b.halfedge_.Set(4, 0, -1, 0);
  b.halfedge_.Set(5, -1, -1, -1);
  const auto r0 = Shadow01<expandP, forward>(0, 0, 0, 1, a, b);
  const auto r1 = Shadow01<expandP, forward>(0, 3, 0, 1, a, b);
  VF_ASSERT(r0.first == r1.first);
  VF_ASSERT(r0.first >= -1 && r0.first <= 1);
  if (r0.first != 0) VF_ASSERT(r0.second[0] == r1.second[0] && r0.second[1] == r1.second[1]);
  VF_END();
}
extern "C" void h_s01sym_tt() { s01sym<true, true>(); }
extern "C" void h_s01sym_tf() { s01sym<true, false>(); }
extern "C" void h_s01sym_ft() { s01sym<false, true>(); }
extern "C" void h_s01sym_ff() { s01sym<false, false>(); }

// C02.b: the symbolic perturbation is a DIRECTION.  Every tie-break expression
// of the cascade is homogeneous of degree one in the vertex / face normals, so
// multiplying ALL normals of both operands by 2 (exact in binary floating
// point) must not change any answer of Kernel11 - sign or intersection point -
// for any operands, exact ties included.  (A tie-break that rounds, truncates
// or thresholds a normal component fails this.)
static void edge_mesh(Manifold::Impl& m, double scale, const vec3 pos[2], const vec3 vn[2], const vec3 fn[2]) {
  m.vertPos_.resize(2, vec3(0.0));
  m.vertNormal_.resize(2, vec3(0.0));
  for (int i = 0; i < 2; i++) { m.vertPos_[i] = pos[i]; m.vertNormal_[i] = vn[i] * scale; }
  m.faceNormal_.resize(2, vec3(0.0));
  for (int i = 0; i < 2; i++) m.faceNormal_[i] = fn[i] * scale;
  m.halfedge_.resize(6);
  m.halfedge_.Set(0, 0, 3, 0);  // face 0: 0 -> 1, paired with halfedge 3 of face 1
  m.halfedge_.Set(1, 1, -1, 1);
  m.halfedge_.Set(2, -1, -1, -1);
  m.halfedge_.Set(3, 1, 0, 1);
  m.halfedge_.Set(4, 0, -1, 0);
  m.halfedge_.Set(5, -1, -1, -1);
}
template <bool expandP>
static void k11scale() {
#ifdef VF_TIECFG
  // The perturbation only acts at exact ties, so the positions are CONCRETE
  // tie configurations (chosen symbolically among the list) and ALL normals
  // are arbitrary doubles: the position arithmetic folds to constants and the
  // whole tie-break logic is decided at full precision.
  static const double cfg[5][12] = {
      // P start, P end, Q start, Q end
      {0, 0, 0, 2, 2, 0, 0, 2, 0, 2, 0, 0},   // crossing at (1,1), z tie, x ties between end points
      {0, 1, 0, 4, 3, 0, 1, 4, 0, 3, 0, 0},   // crossing at (2,2), z tie, no other tie
      {0, 0, 0, 2, 2, 2, 0, 2, 2, 2, 0, 0},   // sloped in z, tie at the crossing (z = 1)
      {0, 0, 0, 2, 0, 0, 1, 0, 0, 1, 2, 0},   // Q starts ON the P edge (y and z ties), Q vertical in the projection
      {0, 0, 0, 2, 2, 0, 0, 2, 1, 2, 0, 1}};  // crossing without z tie (Q above P): ties must not matter
  const int c = vf_range(0, 4);
  vec3 pp[2], qp[2];
  for (int k = 0; k < 3; k++) { pp[0][k] = cfg[c][k]; pp[1][k] = cfg[c][3 + k]; qp[0][k] = cfg[c][6 + k]; qp[1][k] = cfg[c][9 + k]; }
#elif defined(VF_LATTICE)  // positions on a small integer lattice (ties are then frequent); normals stay arbitrary
  auto L = []() { return vec3((double)vf_range(-VF_LATTICE, VF_LATTICE), (double)vf_range(-VF_LATTICE, VF_LATTICE), (double)vf_range(-VF_LATTICE, VF_LATTICE)); };
  vec3 pp[2] = {L(), L()}, qp[2] = {L(), L()};
#else
  vec3 pp[2] = {V(), V()}, qp[2] = {V(), V()};
#endif
  vec3 pvn[2] = {V(), V()}, pfn[2] = {V(), V()};
  vec3 qvn[2] = {V(), V()}, qfn[2] = {V(), V()};
  Manifold::Impl p1, q1, p2, q2;
  edge_mesh(p1, 1.0, pp, pvn, pfn);
  edge_mesh(q1, 1.0, qp, qvn, qfn);
  edge_mesh(p2, 2.0, pp, pvn, pfn);
  edge_mesh(q2, 2.0, qp, qvn, qfn);
  Kernel11<expandP> ka{p1, q1}, kb{p2, q2};
  // the kernel is always called with start < end vertex order on both edges
  const auto ra = ka(0, 0, 1, 0, 0, 1);
  const auto rb = kb(0, 0, 1, 0, 0, 1);
  VF_ASSERT(ra.first == rb.first);
  VF_ASSERT(ra.first >= -1 && ra.first <= 1);
  if (ra.first != 0)
    for (int k = 0; k < 4; k++) VF_ASSERT(ra.second[k] == rb.second[k]);
  VF_END();
}
extern "C" void h_k11scale_t() { k11scale<true>(); }
extern "C" void h_k11scale_f() { k11scale<false>(); }

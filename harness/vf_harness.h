// Harness prelude: included FIRST by every harness TU.
//  * re-enables the library's own ASSERT / DEBUG_ASSERT as proof obligations
//    (the repo compiles them out unless MANIFOLD_DEBUG);
//  * declares the nondeterminism / assertion primitives.  On the solver side
//    they are provided by engine/vf_rt.h + ir2c special forms, on the replay
//    side by engine/vf_native.cpp (values read from a replay file).
#pragma once
#include "manifold/optional_assert.h"
#include <cstdint>
#include <cstddef>
#include <vector>
extern "C" {
uint8_t vf_nondet_u8();
uint32_t vf_nondet_u32();
uint64_t vf_nondet_u64();
double vf_nondet_f64();
float vf_nondet_f32();
void vf_assume(bool);
void vf_assert_at(bool, unsigned line);
void vf_witness();
void vf_lib_assert_fail(unsigned fileId, unsigned line);
void vf_cut();
unsigned char* vf_new(unsigned long);
void vf_register_cancel(unsigned char*);
unsigned char vf_cancel_fired();
}
// FNV-1a of the basename, evaluated at compile time; the driver maps it back.
constexpr unsigned vf_fid(const char* s) {
  const char* b = s;
  for (const char* p = s; *p; ++p)
    if (*p == '/') b = p + 1;
  unsigned h = 2166136261u;
  for (const char* p = b; *p; ++p) h = (h ^ (unsigned char)*p) * 16777619u;
  return h & 0xffffff;
}
#undef ASSERT
#undef DEBUG_ASSERT
#define ASSERT(c, EX)                                     \
  do {                                                    \
    if (!(c)) {                                           \
      constexpr unsigned vf_fid_ = vf_fid(__FILE__);      \
      vf_lib_assert_fail(vf_fid_, __LINE__);              \
    }                                                     \
  } while (0)
#define DEBUG_ASSERT(c, EX, msg)                          \
  do {                                                    \
    if (!(c)) {                                           \
      constexpr unsigned vf_fid_ = vf_fid(__FILE__);      \
      vf_lib_assert_fail(vf_fid_, __LINE__);              \
    }                                                     \
  } while (0)
#define VF_ASSERT(c) vf_assert_at((c), __LINE__)
#ifdef VF_WITNESS
#define VF_END() vf_witness()
#else
#define VF_END() ((void)0)
#endif

static inline int vf_int() { return (int)vf_nondet_u32(); }
static inline int vf_range(int lo, int hi) {  // inclusive
  int v = (int)vf_nondet_u32();
  vf_assume(v >= lo && v <= hi);
  return v;
}
static inline bool vf_bool() { return vf_nondet_u8() & 1; }
static inline double vf_finite(double bound) {
  double d = vf_nondet_f64();
  vf_assume(d == d && d <= bound && d >= -bound);
  return d;
}
// A std::vector of symbolic length <= maxn, built without a loop over the
// symbolic length: one block of the maximum size, (begin,end,cap) written
// directly.  Contents are filled by the caller with vf_nondet_* in a loop of
// *constant* trip count (so that the replay file carries them).
template <typename T>
static inline void vf_mkvec(std::vector<T>& v, unsigned maxn, unsigned n) {
  T* p = reinterpret_cast<T*>(vf_new((maxn ? maxn : 1) * sizeof(T)));
  struct R {
    T* b;
    T* e;
    T* c;
  } r{p, p + n, p + maxn};
  static_assert(sizeof(R) == sizeof(std::vector<T>), "layout");
  __builtin_memcpy(static_cast<void*>(&v), &r, sizeof r);
}

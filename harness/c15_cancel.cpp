// C15: cancellation checks of the ctx-aware for_each and the progress counter
// arithmetic.  The cancel flag is a sticky nondeterministic oracle: every
// atomic load of ctx->cancel may flip it from false to true (and it then stays
// true), so one query covers "Cancel() takes effect at the k-th check" for
// every k.
#include <atomic>
#include <functional>
#include <memory>
#include <vector>
#include "vf_harness.h"
#include "manifold/common.h"
#define private public
#include "execution_impl.h"
#undef private
#include "parallel.h"
#include "execution_impl.cpp"
using namespace manifold;
#ifndef VF_N
#define VF_N 1100
#endif

// Sequential branch, real kSeqCancelChunk: on return either every element was
// visited exactly once in order, or the flag is set (so the caller's post-loop
// IsCancelled check discards the partial result).  Nothing is visited twice.
extern "C" void h_foreach_seq() {
  ExecutionContext::Impl ctx;
  vf_register_cancel(reinterpret_cast<unsigned char*>(&ctx.cancel));
  unsigned n = vf_nondet_u32();
  vf_assume(n <= VF_N);
  unsigned visited = 0;
  bool inorder = true;
  for_each(ExecutionPolicy::Seq, countAt(0u), countAt(n), &ctx, [&](unsigned i) {
    if (i != visited) inorder = false;
    visited++;
  });
  VF_ASSERT(inorder);
  VF_ASSERT(visited <= n);
  if (visited != n) VF_ASSERT(vf_cancel_fired());
  if (visited != n) VF_ASSERT(IsCancelled(&ctx));  // sticky: a later check still sees it
  VF_END();
}
// no context: always complete, the flag is never consulted
extern "C" void h_foreach_noctx() {
  unsigned n = vf_nondet_u32();
  vf_assume(n <= 8);
  unsigned visited = 0;
  for_each(ExecutionPolicy::Seq, countAt(0u), countAt(n), nullptr, [&](unsigned i) { visited++; });
  VF_ASSERT(visited == n);
  VF_END();
}

// Progress(): for counters with 0 <= done <= total the value is in [0,1];
// total == 0 means complete
extern "C" void h_progress() {
  ExecutionContext ctx;
  int done = vf_int(), total = vf_int();
  vf_assume(0 <= done && done <= total);
  ctx.impl_->donePhases.store(done);
  ctx.impl_->totalPhases.store(total);
  double p = ctx.Progress();
  VF_ASSERT(p >= 0.0 && p <= 1.0);
  if (total == 0 || done == total) VF_ASSERT(p == 1.0);
  if (done == 0 && total > 0) VF_ASSERT(p == 0.0);
  VF_END();
}
// Counter reset: a reader between any two of the four stores never computes
// Progress() > 1 (numerators are reset before denominators)
static double progressOf(ExecutionContext::Impl& c) {
  const int total = c.totalPhases.load();
  if (total == 0) return 1.0;
  return double(c.donePhases.load()) / total;
}
static ExecutionContext::Impl* g_ctx;
static bool g_in_env;
static int g_mode;  // 1: the environment is an OBSERVER (reset_order); 2: it is the RESETTING WRITER (progress_vs_reset)
static int g_done0, g_total0, g_new, g_wstep;
extern "C" void vf_env() {  // called around every atomic access of the code under test
  if (!g_ctx || g_in_env) return;
  g_in_env = true;  // the environment's own loads/stores are atomic accesses too
  if (g_mode == 1) {
    double p = progressOf(*g_ctx);
    VF_ASSERT(p <= 1.0);
    // the guarantee the writer model of progress_vs_reset relies on: the pair
    // (donePhases, totalPhases) only ever passes through these three states
    const int d = g_ctx->donePhases.load(), t = g_ctx->totalPhases.load();
    VF_ASSERT((d == g_done0 && t == g_total0) || (d == 0 && t == g_total0) || (d == 0 && t == g_new));
  } else if (g_mode == 2) {
    // a concurrent ResetForStaticFactory (context reuse): its two relevant
    // stores happen in program order, any number of them at this point
    unsigned k = vf_nondet_u8() & 3;
    while (k-- && g_wstep < 2) {
      if (g_wstep == 0) g_ctx->donePhases.store(0, std::memory_order_relaxed);
      else g_ctx->totalPhases.store(g_new, std::memory_order_relaxed);
      g_wstep++;
    }
  }
  g_in_env = false;
}
extern "C" void h_reset_order() {
  ExecutionContext::Impl ctx;
  int done = vf_int(), total = vf_int(), newTotal = vf_int();
  vf_assume(0 <= done && done <= total && newTotal >= 0);
  ctx.donePhases.store(done);
  ctx.totalPhases.store(total);
  g_done0 = done; g_total0 = total; g_new = newTotal;
  g_mode = 1;
  g_ctx = &ctx;
  ResetForStaticFactory(&ctx, newTotal);
  g_ctx = nullptr;
  VF_ASSERT(ctx.donePhases.load() == 0 && ctx.totalPhases.load() == newTotal);
  VF_END();
}

// The other side of the same protocol: the REAL ExecutionContext::Progress()
// polled while another thread resets the context for reuse (writer model
// above, justified by reset_order's state assertion).  Progress must read the
// denominator first: reading done first can pair the old numerator with the
// new, smaller denominator.
extern "C" void h_progress_vs_reset() {
  ExecutionContext ctx;
  int done = vf_int(), total = vf_int(), newTotal = vf_int();
  vf_assume(0 <= done && done <= total && newTotal >= 0);
  ctx.impl_->donePhases.store(done);
  ctx.impl_->totalPhases.store(total);
  g_done0 = done; g_total0 = total; g_new = newTotal; g_wstep = 0;
  g_mode = 2;
  g_ctx = ctx.impl_.get();
  const double p = ctx.Progress();
  g_ctx = nullptr;
  VF_ASSERT(p >= 0.0 && p <= 1.0);
  VF_END();
}

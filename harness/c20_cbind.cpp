// C20: the C binding against the C++ calls it names.  box.cpp / rect.cpp /
// conv.cpp and the *_size functions of manifoldc.cpp are checked
// differentially: for all (finite) arguments the C function returns exactly
// what the C++ member returns, objects are built at the caller's address.
#include "vf_harness.h"
#include "conv.cpp"
#include "box.cpp"
#include "rect.cpp"
using namespace manifold;
#ifndef VF_FB
#define VF_FB 1e150
#endif
static double F() { return vf_finite(VF_FB); }
#ifndef VF_PART
#define VF_PART 1
#endif
#define SAME3(cv, v) VF_ASSERT((cv).x == (v).x && (cv).y == (v).y && (cv).z == (v).z)
#define SAME2(cv, v) VF_ASSERT((cv).x == (v).x && (cv).y == (v).y)

extern "C" void h_box() {
  alignas(Box) unsigned char m1[sizeof(Box)], m2[sizeof(Box)], m3[sizeof(Box)];
  double a[6], b[6];
  for (int i = 0; i < 6; i++) { a[i] = F(); b[i] = F(); }
  ManifoldBox* A = manifold_box(m1, a[0], a[1], a[2], a[3], a[4], a[5]);
  ManifoldBox* B = manifold_box(m2, b[0], b[1], b[2], b[3], b[4], b[5]);
  VF_ASSERT((void*)A == (void*)m1 && (void*)B == (void*)m2);  // placement at the caller's storage
  const Box ca(vec3(a[0], a[1], a[2]), vec3(a[3], a[4], a[5]));
  const Box cb(vec3(b[0], b[1], b[2]), vec3(b[3], b[4], b[5]));
#if VF_PART == 1
  SAME3(manifold_box_min(A), ca.min);
  SAME3(manifold_box_max(A), ca.max);
  SAME3(manifold_box_dimensions(A), ca.Size());
  SAME3(manifold_box_center(A), ca.Center());
  VF_ASSERT(manifold_box_scale(A) == ca.Scale());
#endif
  double x = F(), y = F(), z = F();
#if VF_PART == 2
  VF_ASSERT((manifold_box_contains_pt(A, x, y, z) != 0) == ca.Contains(vec3(x, y, z)));
  VF_ASSERT((manifold_box_contains_box(A, B) != 0) == ca.Contains(cb));
  VF_ASSERT((manifold_box_does_overlap_pt(A, x, y, z) != 0) == ca.DoesOverlap(vec3(x, y, z)));
  VF_ASSERT((manifold_box_does_overlap_box(A, B) != 0) == ca.DoesOverlap(cb));
  VF_ASSERT((manifold_box_is_finite(A) != 0) == ca.IsFinite());
#endif
#if VF_PART == 3
  unsigned op = vf_nondet_u32() % 2 ? 0 : 3;
  if (op == 0) {
    ManifoldBox* U = manifold_box_union(m3, A, B);
    Box cu = ca.Union(cb);
    VF_ASSERT((void*)U == (void*)m3);
    SAME3(manifold_box_min(U), cu.min); SAME3(manifold_box_max(U), cu.max);
  } else if (op == 1) {
    ManifoldBox* T = manifold_box_translate(m3, A, x, y, z);
    Box ct = ca + vec3(x, y, z);
    VF_ASSERT((void*)T == (void*)m3);
    SAME3(manifold_box_min(T), ct.min); SAME3(manifold_box_max(T), ct.max);
  } else if (op == 2) {
    ManifoldBox* S = manifold_box_mul(m3, A, x, y, z);
    Box cs = ca * vec3(x, y, z);
    SAME3(manifold_box_min(S), cs.min); SAME3(manifold_box_max(S), cs.max);
  } else {
    manifold_box_include_pt(A, x, y, z);
    Box ci = ca;
    ci.Union(vec3(x, y, z));
    SAME3(manifold_box_min(A), ci.min); SAME3(manifold_box_max(A), ci.max);
  }
#endif
  VF_END();
}
// the 12 matrix arguments arrive column by column: symbolic small integers so
// that the affine product is exact and any permutation of arguments shows
extern "C" void h_box_transform() {
  alignas(Box) unsigned char m1[sizeof(Box)], m3[sizeof(Box)];
  double a[6], t[12];
  for (int i = 0; i < 6; i++) a[i] = vf_range(-8, 8);
  for (int i = 0; i < 12; i++) t[i] = vf_range(-8, 8);
  ManifoldBox* A = manifold_box(m1, a[0], a[1], a[2], a[3], a[4], a[5]);
  ManifoldBox* T = manifold_box_transform(m3, A, t[0], t[1], t[2], t[3], t[4], t[5], t[6], t[7], t[8], t[9], t[10], t[11]);
  const Box ca(vec3(a[0], a[1], a[2]), vec3(a[3], a[4], a[5]));
  mat3x4 M({t[0], t[1], t[2]}, {t[3], t[4], t[5]}, {t[6], t[7], t[8]}, {t[9], t[10], t[11]});
  Box ct = ca.Transform(M);
  VF_ASSERT((void*)T == (void*)m3);
  SAME3(manifold_box_min(T), ct.min); SAME3(manifold_box_max(T), ct.max);
  VF_END();
}
// translate / mul with integer-valued arguments (exact arithmetic): the scalars
// must arrive in x,y,z order
extern "C" void h_box_arith() {
  alignas(Box) unsigned char m1[sizeof(Box)], m3[sizeof(Box)];
  double a[6];
  for (int i = 0; i < 6; i++) a[i] = vf_range(-8, 8);
  double x = vf_range(-8, 8), y = vf_range(-8, 8), z = vf_range(-8, 8);
  ManifoldBox* A = manifold_box(m1, a[0], a[1], a[2], a[3], a[4], a[5]);
  const Box ca(vec3(a[0], a[1], a[2]), vec3(a[3], a[4], a[5]));
  if (vf_bool()) {
    ManifoldBox* T = manifold_box_translate(m3, A, x, y, z);
    Box ct = ca + vec3(x, y, z);
    VF_ASSERT((void*)T == (void*)m3);
    SAME3(manifold_box_min(T), ct.min); SAME3(manifold_box_max(T), ct.max);
  } else {
    ManifoldBox* S = manifold_box_mul(m3, A, x, y, z);
    Box cs = ca * vec3(x, y, z);
    VF_ASSERT((void*)S == (void*)m3);
    SAME3(manifold_box_min(S), cs.min); SAME3(manifold_box_max(S), cs.max);
  }
  VF_END();
}
extern "C" void h_rect_arith() {
  alignas(Rect) unsigned char m1[sizeof(Rect)], m3[sizeof(Rect)];
  double a[4];
  for (int i = 0; i < 4; i++) a[i] = vf_range(-8, 8);
  double x = vf_range(-8, 8), y = vf_range(-8, 8);
  ManifoldRect* A = manifold_rect(m1, a[0], a[1], a[2], a[3]);
  const Rect ca(vec2(a[0], a[1]), vec2(a[2], a[3]));
  if (vf_bool()) {
    ManifoldRect* T = manifold_rect_translate(m3, A, x, y);
    Rect ct = ca + vec2(x, y);
    VF_ASSERT((void*)T == (void*)m3);
    SAME2(manifold_rect_min(T), ct.min); SAME2(manifold_rect_max(T), ct.max);
  } else {
    ManifoldRect* S = manifold_rect_mul(m3, A, x, y);
    Rect cs = ca * vec2(x, y);
    SAME2(manifold_rect_min(S), cs.min); SAME2(manifold_rect_max(S), cs.max);
  }
  VF_END();
}
// the 6 matrix scalars of manifold_rect_transform arrive column by column
extern "C" void h_rect_transform() {
  alignas(Rect) unsigned char m1[sizeof(Rect)], m3[sizeof(Rect)];
  double a[4], t[6];
  for (int i = 0; i < 4; i++) a[i] = vf_range(-8, 8);
  for (int i = 0; i < 6; i++) t[i] = vf_range(-8, 8);
  ManifoldRect* A = manifold_rect(m1, a[0], a[1], a[2], a[3]);
  ManifoldRect* T = manifold_rect_transform(m3, A, t[0], t[1], t[2], t[3], t[4], t[5]);
  const Rect ca(vec2(a[0], a[1]), vec2(a[2], a[3]));
  mat2x3 M({t[0], t[1]}, {t[2], t[3]}, {t[4], t[5]});
  Rect ct = ca.Transform(M);
  VF_ASSERT((void*)T == (void*)m3);
  SAME2(manifold_rect_min(T), ct.min); SAME2(manifold_rect_max(T), ct.max);
  VF_END();
}
extern "C" void h_rect() {
  alignas(Rect) unsigned char m1[sizeof(Rect)], m2[sizeof(Rect)], m3[sizeof(Rect)];
  double a[4], b[4];
  for (int i = 0; i < 4; i++) { a[i] = F(); b[i] = F(); }
  ManifoldRect* A = manifold_rect(m1, a[0], a[1], a[2], a[3]);
  ManifoldRect* B = manifold_rect(m2, b[0], b[1], b[2], b[3]);
  VF_ASSERT((void*)A == (void*)m1);
  const Rect ca(vec2(a[0], a[1]), vec2(a[2], a[3]));
  const Rect cb(vec2(b[0], b[1]), vec2(b[2], b[3]));
#if VF_PART == 1
  SAME2(manifold_rect_min(A), ca.min);
  SAME2(manifold_rect_max(A), ca.max);
  SAME2(manifold_rect_dimensions(A), ca.Size());
  SAME2(manifold_rect_center(A), ca.Center());
  VF_ASSERT(manifold_rect_scale(A) == ca.Scale());
#endif
  double x = F(), y = F();
#if VF_PART == 2
  VF_ASSERT((manifold_rect_contains_pt(A, x, y) != 0) == ca.Contains(vec2(x, y)));
  VF_ASSERT((manifold_rect_contains_rect(A, B) != 0) == ca.Contains(cb));
  VF_ASSERT((manifold_rect_does_overlap_rect(A, B) != 0) == ca.DoesOverlap(cb));
  VF_ASSERT((manifold_rect_is_empty(A) != 0) == ca.IsEmpty());
  VF_ASSERT((manifold_rect_is_finite(A) != 0) == ca.IsFinite());
#endif
#if VF_PART == 3
  unsigned op = vf_nondet_u32() % 2 ? 0 : 3;
  if (op == 0) {
    ManifoldRect* U = manifold_rect_union(m3, A, B);
    Rect cu = ca.Union(cb);
    VF_ASSERT((void*)U == (void*)m3);
    SAME2(manifold_rect_min(U), cu.min); SAME2(manifold_rect_max(U), cu.max);
  } else if (op == 1) {
    ManifoldRect* T = manifold_rect_translate(m3, A, x, y);
    Rect ct = ca + vec2(x, y);
    SAME2(manifold_rect_min(T), ct.min); SAME2(manifold_rect_max(T), ct.max);
  } else if (op == 2) {
    ManifoldRect* S = manifold_rect_mul(m3, A, x, y);
    Rect cs = ca * vec2(x, y);
    SAME2(manifold_rect_min(S), cs.min); SAME2(manifold_rect_max(S), cs.max);
  } else {
    manifold_rect_include_pt(A, x, y);
    Rect ci = ca;
    ci.Union(vec2(x, y));
    SAME2(manifold_rect_min(A), ci.min); SAME2(manifold_rect_max(A), ci.max);
  }
#endif
  VF_END();
}
// enum tables: name-preserving and injective.  The pairs below are the
// reviewed mapping of manifold.h / cross_section.h names to types.h names and
// are independent of conv.cpp.
#define ERR_PAIRS(P)                                                      \
  P(NoError, MANIFOLD_NO_ERROR) P(NonFiniteVertex, MANIFOLD_NON_FINITE_VERTEX) \
  P(NotManifold, MANIFOLD_NOT_MANIFOLD) P(VertexOutOfBounds, MANIFOLD_VERTEX_INDEX_OUT_OF_BOUNDS) \
  P(PropertiesWrongLength, MANIFOLD_PROPERTIES_WRONG_LENGTH) P(MissingPositionProperties, MANIFOLD_MISSING_POSITION_PROPERTIES) \
  P(MergeVectorsDifferentLengths, MANIFOLD_MERGE_VECTORS_DIFFERENT_LENGTHS) P(MergeIndexOutOfBounds, MANIFOLD_MERGE_INDEX_OUT_OF_BOUNDS) \
  P(TransformWrongLength, MANIFOLD_TRANSFORM_WRONG_LENGTH) P(RunIndexWrongLength, MANIFOLD_RUN_INDEX_WRONG_LENGTH) \
  P(FaceIDWrongLength, MANIFOLD_FACE_ID_WRONG_LENGTH) P(InvalidConstruction, MANIFOLD_INVALID_CONSTRUCTION) \
  P(ResultTooLarge, MANIFOLD_RESULT_TOO_LARGE) P(InvalidTangents, MANIFOLD_INVALID_TANGENTS) P(Cancelled, MANIFOLD_CANCELLED)
extern "C" void h_enums() {
  unsigned k = vf_nondet_u32() % 15;
  Manifold::Error e = Manifold::Error::NoError;
  ManifoldError want = MANIFOLD_NO_ERROR;
  unsigned i = 0;
#define P(cpp, c) if (k == i++) { e = Manifold::Error::cpp; want = c; }
  ERR_PAIRS(P)
#undef P
  VF_ASSERT(to_c(e) == want);
  // injective: a different error has a different image
  unsigned k2 = vf_nondet_u32() % 15;
  Manifold::Error e2 = Manifold::Error::NoError;
  i = 0;
#define P(cpp, c) if (k2 == i++) { e2 = Manifold::Error::cpp; }
  ERR_PAIRS(P)
#undef P
  if (e != e2) VF_ASSERT(to_c(e) != to_c(e2));
  // OpType / JoinType round trips
  VF_ASSERT(to_c(OpType::Add) == MANIFOLD_ADD && to_c(OpType::Subtract) == MANIFOLD_SUBTRACT && to_c(OpType::Intersect) == MANIFOLD_INTERSECT);
  VF_ASSERT(from_c(MANIFOLD_ADD) == OpType::Add && from_c(MANIFOLD_SUBTRACT) == OpType::Subtract && from_c(MANIFOLD_INTERSECT) == OpType::Intersect);
  VF_ASSERT(from_c(MANIFOLD_JOIN_TYPE_SQUARE) == CrossSection::JoinType::Square && from_c(MANIFOLD_JOIN_TYPE_ROUND) == CrossSection::JoinType::Round &&
            from_c(MANIFOLD_JOIN_TYPE_MITER) == CrossSection::JoinType::Miter && from_c(MANIFOLD_JOIN_TYPE_BEVEL) == CrossSection::JoinType::Bevel);
  // scalar conversions keep component order
  double x = F(), y = F(), z = F(), w = F();
  vec3 v3 = from_c(ManifoldVec3{x, y, z});
  VF_ASSERT(v3.x == x && v3.y == y && v3.z == z);
  vec4 v4 = from_c(ManifoldVec4{x, y, z, w});
  VF_ASSERT(v4.x == x && v4.y == y && v4.z == z && v4.w == w);
  ManifoldVec3 c3 = to_c(vec3(x, y, z));
  VF_ASSERT(c3.x == x && c3.y == y && c3.z == z);
  ManifoldVec2 c2 = to_c(vec2(x, y));
  VF_ASSERT(c2.x == x && c2.y == y);
  VF_END();
}

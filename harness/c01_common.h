// Representation invariant of the halfedge structure (DESIGN.md C01):
// invariant I over (start_, paired_) with tombstoned triangles allowed.
#pragma once
static inline int nx(int h) { return h % 3 == 2 ? h - 2 : h + 1; }
static bool InvI(const manifold::Halfedges& he, int n, int numVert) {
  bool ok = true;
  for (int h = 0; h < n; ++h) {
    const int s = he.Start(h), p = he.Pair(h);
    const int t0 = 3 * (h / 3);
    const bool dead = he.Pair(t0) < 0;
    if (dead) {
      ok = ok && s == -1 && p == -1;
    } else {
      ok = ok && p >= 0 && p < n && p != h && s >= 0 && s < numVert;
      if (p >= 0 && p < n) {
        ok = ok && he.Pair(p) == h && he.Start(p) == he.Start(nx(h)) &&
             he.Start(nx(p)) == s && s != he.Start(nx(h));
      }
    }
  }
  return ok;
}

// C09.a: the validation ladder of Manifold::Impl::Impl(const MeshGLP&) on an
// ARBITRARY MeshGL64 / MeshGL: every vector has a symbolic length and
// arbitrary contents.  Everything from CreateHalfedges on is cut (paths end
// there); ReserveIDs is replaced by a stub returning an arbitrary id.
#include "vf_harness.h"
#include "impl.cpp"
using namespace manifold;
#ifndef VF_LV
#define VF_LV 12  // max vertProperties length
#endif
#ifndef VF_LT
#define VF_LT 12  // max triVerts length
#endif
#ifndef VF_L
#define VF_L 3    // max length of every other vector
#endif

// MakeEmpty (impl.cpp) is replaced on the ladder's error paths by a stub that
// records the request: clearing every container on each of the ~15 error exits
// multiplies the formula; MakeEmpty itself is a separate obligation (makeempty).
static int g_emptied = 0;
#ifndef VF_REAL_MAKEEMPTY
extern "C" void vf_stub_MakeEmpty(Manifold::Impl* self, int status) {
  self->status_ = static_cast<Manifold::Error>(status);
  g_emptied++;
}
#endif
static uint32_t g_startID = 0, g_numIDs = 0;
extern "C" uint32_t vf_stub_ReserveIDs(uint32_t n) {
  uint32_t r = vf_nondet_u32();
  vf_assume(r < 1000000 && n < 1000000);
  return r;
}
// Handoff contract (obligations handoff*): instead of ending the success path
// at the call of CreateHalfedges, that call is redirected here and the state
// the ladder hands to the rest of the library is checked: it is what
// CreateHalfedges, Transform, Compose and the GetMeshGL export index with
// WITHOUT re-validating.
extern "C" void vf_stub_CreateHalfedges(Manifold::Impl* self, const Vec<ivec3>* triProp,
                                        const Vec<ivec3>* triVert) {
  const size_t nT = triProp->size();
  const size_t nV = self->vertPos_.size();
  const size_t nP = self->numProp_;
  VF_ASSERT(g_emptied == 0);
  VF_ASSERT(triVert->size() == 0 || triVert->size() == nT);
  // one TriRef per kept triangle (or none at all when the mesh has no triangles)
  VF_ASSERT(self->meshRelation_.triRef.size() == nT);
  // property rows: numProp_ values per input vertex, nothing dangling
  VF_ASSERT(self->properties_.size() == nV * nP);
  for (size_t t = 0; t < nT && t < 4; t++)
    for (int j = 0; j < 3; j++) {
      VF_ASSERT((*triProp)[t][j] >= 0 && (size_t)(*triProp)[t][j] < nV);
      if (triVert->size() != 0) VF_ASSERT((*triVert)[t][j] >= 0 && (size_t)(*triVert)[t][j] < nV);
    }
  // every run was registered; a run may only claim normals (hasNormals: the
  // export and Transform then treat property slots 0..2 as a vector) when
  // there ARE three property slots
  // (ReserveIDs is a one-line atomic fetch_add that clang inlines into the
  // constructor; the harness sets the id counter and records it)
  VF_ASSERT(g_numIDs >= 1 && g_numIDs <= 2);
  for (uint32_t i = 0; i < 2; i++)
    if (i < g_numIDs) {
      auto it = self->meshRelation_.meshIDtransform.find((int)(g_startID + i));
      VF_ASSERT(it != self->meshRelation_.meshIDtransform.end());
      if (it != self->meshRelation_.meshIDtransform.end() && it->second.hasNormals) VF_ASSERT(nP >= 3);
    }
  for (size_t t = 0; t < nT && t < 4; t++) {
    const int id = self->meshRelation_.triRef[t].meshID;
    VF_ASSERT(id >= (int)g_startID && id < (int)(g_startID + g_numIDs));
  }
  // tangents: none, or one per halfedge of the KEPT triangles (degenerate
  // input triangles are dropped by the ladder; GatherFaces/ReindexFace index
  // the tangents by kept-triangle number)
  VF_ASSERT(self->halfedgeTangent_.size() == 0 || self->halfedgeTangent_.size() == 3 * nT);
#ifdef VF_WITNESS
  vf_witness();
#endif
  vf_cut();
}

template <typename T> static T nd();
template <> uint64_t nd<uint64_t>() { return vf_nondet_u64(); }
template <> uint32_t nd<uint32_t>() { return vf_nondet_u32(); }
template <> uint8_t nd<uint8_t>() { return vf_nondet_u8(); }
template <> double nd<double>() { return vf_nondet_f64(); }
template <> float nd<float>() { return vf_nondet_f32(); }

// length of the k-th optional vector: symbolic, or fixed per query by the driver
// (-DVF_LENS=a,b,c,...: one query per length configuration; contents stay
// symbolic).  Constant lengths keep every heap block constant-sized.
#ifdef VF_LENS
static const unsigned vf_lens[] = {VF_LENS};
#endif
static unsigned vf_lenidx = 0;
template <typename T, unsigned MAXN>
static void sym(std::vector<T>& v) {
#ifdef VF_LENS
  unsigned n = vf_lens[vf_lenidx++];
#else
  unsigned n = vf_nondet_u32();
#endif
  vf_assume(n <= MAXN);
  vf_mkvec(v, MAXN, n);
  for (unsigned i = 0; i < MAXN; i++) v.data()[i] = nd<T>();
}

// The driver issues one query per LENGTH CONFIGURATION (VF_LENS = lengths of
// vertProperties, triVerts, mergeFromVert, mergeToVert, runIndex,
// runOriginalID, runTransform, runFlags, faceID, halfedgeTangent); all
// contents, numProp and tolerance stay arbitrary.
template <typename P, typename I>
static void ingest() {
  MeshGLP<P, I> m;
#ifdef VF_NUMPROP
  m.numProp = VF_NUMPROP;  // fixed per query; the arbitrary-numProp queries use short vectors
#else
  m.numProp = nd<I>();
#endif
  sym<P, 16>(m.vertProperties);
  sym<I, 12>(m.triVerts);
  sym<I, 3>(m.mergeFromVert);
  sym<I, 3>(m.mergeToVert);
  sym<I, 3>(m.runIndex);
  sym<uint32_t, 2>(m.runOriginalID);
  sym<P, 24>(m.runTransform);
  sym<uint8_t, 2>(m.runFlags);
  sym<I, 4>(m.faceID);
  sym<P, 48>(m.halfedgeTangent);
#ifdef VF_CONST_TANGENTS  // the tangent VALUES are irrelevant to the obligation (only their count is)
  for (unsigned i = 0; i < 48; i++) m.halfedgeTangent.data()[i] = P(1);
#endif
  m.tolerance = nd<P>();
#ifdef VF_EXCLUDE_KNOWN
  VF_EXCLUDE_KNOWN
#endif
  {  // ReserveIDs is inlined by clang (the redirect above only catches an
     // out-of-line call): make the id counter itself arbitrary
    uint32_t c = vf_nondet_u32();
    vf_assume(c < 1000000);
    Manifold::Impl::meshIDCounter_.store(c, std::memory_order_relaxed);
    g_startID = c;
    g_numIDs = m.runOriginalID.size() > 1 ? (uint32_t)m.runOriginalID.size() : 1;
  }
  Manifold::Impl impl(m, nullptr);
  // reached only on the early returns (the success path ends at the cut):
  // every one of them went through MakeEmpty exactly once
  VF_ASSERT(g_emptied == 1);
  VF_ASSERT(impl.halfedge_.size() == 0);
#ifndef VF_HANDOFF  // handoff obligations: the witness is the handoff stub itself
  VF_END();
#endif
}
extern "C" void h_ingest64() { ingest<double, uint64_t>(); }
extern "C" void h_ingest32() { ingest<float, uint32_t>(); }

// MakeEmpty from an arbitrary small Impl: everything observable is emptied and
// the requested status is set (what the ladder's error paths rely on)
extern "C" void h_makeempty() {
  Manifold::Impl impl;
  const unsigned nv = 2, nt = 2;  // constant sizes: symbolic-size blocks make the query explode
  impl.vertPos_.resize(nv, vec3(0.0));
  impl.halfedge_.resize(3 * nt);
  impl.meshRelation_.triRef.resize(nt, TriRef{0, 0, -1, 0});
  impl.faceNormal_.resize(nt, vec3(0.0));
  impl.halfedgeTangent_.resize(3 * nt, vec4(0.0));
  impl.numProp_ = 1;
  impl.properties_.resize(nv, 0.0);
  if (vf_bool()) impl.meshRelation_.meshIDtransform[3] = Manifold::Impl::Relation();
  int st = vf_range(0, 14);
  impl.MakeEmpty(static_cast<Manifold::Error>(st));
  VF_ASSERT((int)impl.status_ == st);
  VF_ASSERT(impl.NumVert() == 0 && impl.NumTri() == 0 && impl.IsEmpty());
  VF_ASSERT(impl.halfedge_.size() == 0 && impl.halfedgeTangent_.size() == 0 && impl.meshRelation_.triRef.size() == 0);
  VF_ASSERT(impl.meshRelation_.meshIDtransform.empty());
  VF_END();
}

// C13 / C04: the real parallel layer (src/parallel.h) compiled with
// MANIFOLD_PAR=1 against the TBB protocol model (models/include/tbb), compared
// with hand-written sequential oracles for every input of length <= VF_N and
// every schedule the model allows.
#include "vf_harness.h"
#include "parallel.h"
using namespace manifold;
#ifndef VF_N
#define VF_N 4
#endif
static const ExecutionPolicy PAR = ExecutionPolicy::Par;
static const ExecutionPolicy SEQ = ExecutionPolicy::Seq;

struct In {
  int a[VF_N];
  unsigned n;
};
// VF_LEN defined: the length is a constant of this query (the driver issues one
// query per length 0..VF_N); otherwise it is a symbolic value in 0..VF_N
static unsigned len() {
#ifdef VF_LEN
  return VF_LEN;
#else
  unsigned n = vf_nondet_u32();
  vf_assume(n <= VF_N);
  return n;
#endif
}
static In mk(int lo = -1000, int hi = 1000) {
  In x;
  x.n = len();
  for (unsigned i = 0; i < VF_N; i++) x.a[i] = vf_range(lo, hi);
  return x;
}
struct AbsSum {
  int operator()(int a, int b) const { return (a < 0 ? -a : a) + (b < 0 ? -b : b); }
};
// associative, NOT commutative: "last non-zero wins"
struct LastNZ {
  int operator()(int a, int b) const { return b != 0 ? b : a; }
};

template <typename Op>
static void exscan(bool inplace, int identity) {
  In x = mk();
  int init = vf_range(0, 1000);
  int out[VF_N], want[VF_N], src[VF_N];
  Op op;
  int acc = init;
  for (unsigned i = 0; i < VF_N; i++) {
    src[i] = x.a[i];
    out[i] = 7777;
    want[i] = 7777;
    if (i < x.n) {
      want[i] = acc;
      acc = op(acc, x.a[i]);
    }
  }
  if (inplace) {
    for (unsigned i = x.n; i < VF_N; i++) want[i] = src[i];
    exclusive_scan(PAR, src, src + x.n, src, init, op, identity);
    for (unsigned i = 0; i < VF_N; i++) VF_ASSERT(src[i] == want[i]);
  } else {
    exclusive_scan(PAR, src, src + x.n, out, init, op, identity);
    for (unsigned i = 0; i < VF_N; i++) VF_ASSERT(out[i] == want[i]);
    for (unsigned i = 0; i < VF_N; i++) VF_ASSERT(src[i] == x.a[i]);
  }
  VF_END();
}
extern "C" void h_exscan_abssum() { exscan<AbsSum>(false, 0); }
extern "C" void h_exscan_abssum_inplace() { exscan<AbsSum>(true, 0); }
extern "C" void h_exscan_lastnz() { exscan<LastNZ>(false, 0); }
extern "C" void h_exscan_plus_inplace() { exscan<std::plus<int>>(true, 0); }

extern "C" void h_incscan() {
  In x = mk();
  bool inplace = vf_bool();
  int out[VF_N], want[VF_N], src[VF_N];
  int acc = 0;
  for (unsigned i = 0; i < VF_N; i++) {
    src[i] = x.a[i];
    out[i] = 7777;
    want[i] = inplace ? x.a[i] : 7777;
    if (i < x.n) {
      acc = acc + x.a[i];
      want[i] = acc;
    }
  }
  int* dst = inplace ? src : out;
  inclusive_scan(PAR, src, src + x.n, dst);
  for (unsigned i = 0; i < VF_N; i++) VF_ASSERT(dst[i] == want[i]);
  VF_END();
}

// copy_if / remove_if / remove / unique (CopyIfScanBody)
extern "C" void h_copy_if() {
  In x = mk(-3, 3);
  int out[VF_N], want[VF_N];
  unsigned k = 0;
  for (unsigned i = 0; i < VF_N; i++) out[i] = want[i] = 7777;
  for (unsigned i = 0; i < x.n; i++)
    if (x.a[i] > 0) want[k++] = x.a[i];
  int* e = copy_if(PAR, x.a, x.a + x.n, out, [](int v) { return v > 0; });
  VF_ASSERT(e == out + k);
  for (unsigned i = 0; i < VF_N; i++) VF_ASSERT(out[i] == want[i]);
  VF_END();
}
extern "C" void h_remove_if() {
  In x = mk(-3, 3);
  int want[VF_N];
  unsigned k = 0;
  for (unsigned i = 0; i < x.n; i++)
    if (!(x.a[i] > 0)) want[k++] = x.a[i];
  int* e = remove_if(PAR, x.a, x.a + x.n, [](int v) { return v > 0; });
  VF_ASSERT(e == x.a + k);
  for (unsigned i = 0; i < k; i++) VF_ASSERT(x.a[i] == want[i]);
  VF_END();
}
extern "C" void h_remove() {
  In x = mk(-2, 2);
  int val = vf_range(-2, 2);
  int want[VF_N];
  unsigned k = 0;
  for (unsigned i = 0; i < x.n; i++)
    if (x.a[i] != val) want[k++] = x.a[i];
  int* e = manifold::remove(PAR, x.a, x.a + x.n, val);
  VF_ASSERT(e == x.a + k);
  for (unsigned i = 0; i < k; i++) VF_ASSERT(x.a[i] == want[i]);
  VF_END();
}
extern "C" void h_unique() {
  In x = mk(-2, 2);
  int want[VF_N];
  unsigned k = 0;
  for (unsigned i = 0; i < x.n; i++)
    if (i == 0 || x.a[i] != x.a[i - 1]) want[k++] = x.a[i];
  int* e = manifold::unique(PAR, x.a, x.a + x.n);
  VF_ASSERT(e == x.a + k);
  for (unsigned i = 0; i < k; i++) VF_ASSERT(x.a[i] == want[i]);
  VF_END();
}

// element-wise primitives
extern "C" void h_elementwise() {
  In x = mk();
  int out[VF_N], seen[VF_N];
  for (unsigned i = 0; i < VF_N; i++) { out[i] = 7777; seen[i] = 0; }
  // for_each over a counting iterator: every index exactly once
  for_each(PAR, countAt(0_uz), countAt((size_t)x.n), [&seen](size_t i) { seen[i]++; });
  for (unsigned i = 0; i < VF_N; i++) VF_ASSERT(seen[i] == (i < x.n ? 1 : 0));
  // transform
  manifold::transform(PAR, x.a, x.a + x.n, out, [](int v) { return 2 * v + 1; });
  for (unsigned i = 0; i < VF_N; i++) VF_ASSERT(out[i] == (i < x.n ? 2 * x.a[i] + 1 : 7777));
  // copy, fill
  int cp[VF_N];
  for (unsigned i = 0; i < VF_N; i++) cp[i] = 7777;
  manifold::copy(PAR, x.a, x.a + x.n, cp);
  for (unsigned i = 0; i < VF_N; i++) VF_ASSERT(cp[i] == (i < x.n ? x.a[i] : 7777));
  int fv = vf_int();
  manifold::fill(PAR, cp, cp + x.n, fv);
  for (unsigned i = 0; i < VF_N; i++) VF_ASSERT(cp[i] == (i < x.n ? fv : 7777));
  // sequence
  int sq[VF_N];
  for (unsigned i = 0; i < VF_N; i++) sq[i] = 7777;
  manifold::sequence(PAR, sq, sq + x.n);
  for (unsigned i = 0; i < VF_N; i++) VF_ASSERT(sq[i] == (i < x.n ? (int)i : 7777));
  VF_END();
}
extern "C" void h_gather_scatter() {
  In x = mk();
  int map[VF_N], out[VF_N], out2[VF_N];
  bool used[VF_N];
  for (unsigned i = 0; i < VF_N; i++) { used[i] = false; out[i] = out2[i] = 7777; }
  for (unsigned i = 0; i < VF_N; i++) {  // a permutation of 0..n-1 on the first n entries
    map[i] = vf_range(0, VF_N - 1);
    if (i < x.n) { vf_assume(map[i] < (int)x.n && !used[map[i]]); used[map[i]] = true; }
  }
  manifold::gather(PAR, map, map + x.n, x.a, out);
  for (unsigned i = 0; i < VF_N; i++) VF_ASSERT(out[i] == (i < x.n ? x.a[map[i]] : 7777));
  manifold::scatter(PAR, x.a, x.a + x.n, map, out2);
  for (unsigned i = 0; i < x.n; i++) VF_ASSERT(out2[map[i]] == x.a[i]);
  for (unsigned i = x.n; i < VF_N; i++) VF_ASSERT(out2[i] == 7777);
  VF_END();
}
// reductions: `init` is the identity of the operator, as TBB's functional
// parallel_reduce requires and as every call site in the repo passes
// (0 for plus, +-inf / INT_MAX for min/max, true for and).
struct MaxOp {
  int operator()(int a, int b) const { return a > b ? a : b; }
};
extern "C" void h_reduce_plus() {
  In x = mk();
  int sum = 0;
  for (unsigned i = 0; i < x.n; i++) sum += x.a[i];
  VF_ASSERT(manifold::reduce(PAR, x.a, x.a + x.n, 0, std::plus<int>()) == sum);
  VF_END();
}
extern "C" void h_reduce_max() {
  In x = mk();
  int mx = -2000;
  for (unsigned i = 0; i < x.n; i++)
    if (x.a[i] > mx) mx = x.a[i];
  VF_ASSERT(manifold::reduce(PAR, x.a, x.a + x.n, -2000, MaxOp()) == mx);
  VF_END();
}
extern "C" void h_transform_reduce() {
  In x = mk();
  int sum = 0;
  for (unsigned i = 0; i < x.n; i++) sum += 3 * x.a[i];
  VF_ASSERT(manifold::transform_reduce(PAR, x.a, x.a + x.n, 0, std::plus<int>(), [](int v) { return 3 * v; }) == sum);
  VF_END();
}
extern "C" void h_count_all() {
  In x = mk(-2, 2);
  unsigned cnt = 0;
  bool all = true;
  for (unsigned i = 0; i < x.n; i++) {
    if (x.a[i] > 0) cnt++; else all = false;
  }
  if (vf_bool()) VF_ASSERT(manifold::count_if(PAR, x.a, x.a + x.n, [](int v) { return v > 0; }) == cnt);
  else VF_ASSERT(manifold::all_of(PAR, x.a, x.a + x.n, [](int v) { return v > 0; }) == all);
  VF_END();
}

// stable sorts.  Elements are (key, tag) pairs compared by key only; tags are
// the original positions, so stability is observable.
struct KT {
  int key, tag;
};
struct ByKey {
  bool operator()(const KT& x, const KT& y) const { return x.key < y.key; }
};
// model of libstdc++'s std::stable_sort<KT*, ByKey> (outside the repo; trusted
// to be a stable sort): insertion sort.  The driver redirects the call.
extern "C" void vf_stub_stable_sort_KT(KT* first, KT* last, ByKey comp) {
  for (KT* i = first; i != last; ++i)
    for (KT* j = i; j != first && comp(*j, *(j - 1)); --j) {
      KT t = *j;
      *j = *(j - 1);
      *(j - 1) = t;
    }
}
extern "C" void h_merge_sort() {
  KT a[VF_N], w[VF_N];
  unsigned n = len();
  for (unsigned i = 0; i < VF_N; i++) { a[i].key = vf_range(0, 3); a[i].tag = i; w[i] = a[i]; }
  // oracle: insertion sort (stable)
  for (unsigned i = 1; i < n; i++)
    for (unsigned j = i; j > 0 && w[j].key < w[j - 1].key; j--) { KT t = w[j]; w[j] = w[j - 1]; w[j - 1] = t; }
  manifold::stable_sort(PAR, a, a + n, ByKey());
  for (unsigned i = 0; i < VF_N; i++) VF_ASSERT(a[i].key == w[i].key && a[i].tag == w[i].tag);
  VF_END();
}
// the parallel stable merge on its own: two sorted runs, every split of <= VF_N
// elements between them; result must be the STABLE merge (left run first on ties)
extern "C" void h_merge_rec() {
  KT src[VF_N], dst[VF_N], w[VF_N];
  unsigned n = len();
  unsigned n1 = vf_nondet_u32();
  vf_assume(n1 <= n);
  for (unsigned i = 0; i < VF_N; i++) {
    src[i].key = vf_range(0, 3);
    src[i].tag = i;
    dst[i].key = dst[i].tag = 7777;
    w[i].key = w[i].tag = 7777;
  }
  for (unsigned i = 1; i < n; i++)
    if (i != n1) vf_assume(src[i - 1].key <= src[i].key);
  unsigned a = 0, b = n1, k = 0;
  while (a < n1 || b < n) {
    if (b >= n || (a < n1 && !(src[b].key < src[a].key))) w[k++] = src[a++];
    else w[k++] = src[b++];
  }
  details::mergeRec(src, dst, 0, n1, n1, n, 0, ByKey());
  for (unsigned i = 0; i < VF_N; i++) VF_ASSERT(dst[i].key == w[i].key && dst[i].tag == w[i].tag);
  VF_END();
}
#ifndef VF_KEY_T
#define VF_KEY_T unsigned short
#endif
extern "C" void h_radix_sort() {
  VF_KEY_T a[VF_N], w[VF_N];
  unsigned n = len();
  for (unsigned i = 0; i < VF_N; i++) { a[i] = (VF_KEY_T)vf_nondet_u32(); w[i] = a[i]; }
  for (unsigned i = 1; i < n; i++)
    for (unsigned j = i; j > 0 && w[j] < w[j - 1]; j--) { VF_KEY_T t = w[j]; w[j] = w[j - 1]; w[j - 1] = t; }
  manifold::stable_sort(PAR, a, a + n);
  for (unsigned i = 0; i < VF_N; i++) VF_ASSERT(a[i] == w[i]);
  VF_END();
}

// SortedRange::join / swapBuffer (the reduction step of the radix-sort path) on
// its own: two adjacent sorted runs, each living in either of the two buffers
// (inTmp), every length split.  After left.join(right) the buffer named by
// left.inTmp must hold the sorted merge of both runs.
extern "C" void h_sorted_range_join() {
  typedef unsigned KeyT;
  KeyT input[VF_N], tmp[VF_N], runs[VF_N];
  unsigned n = len();
  unsigned n1 = vf_nondet_u32();
  vf_assume(n1 >= 1 && n1 < n);  // both runs non-empty (TBB never creates an empty range)
  for (unsigned i = 0; i < VF_N; i++) {
    runs[i] = vf_nondet_u32();
    input[i] = vf_nondet_u32();  // stale contents of the buffer that does not hold the run
    tmp[i] = vf_nondet_u32();
  }
  for (unsigned i = 1; i < n; i++)
    if (i != n1) vf_assume(runs[i - 1] <= runs[i]);
  details::SortedRange<KeyT, size_t> left(input, tmp, 0, n1), right(input, tmp, n1, n - n1);
  left.inTmp = vf_bool();
  right.inTmp = vf_bool();
  for (unsigned i = 0; i < VF_N; i++)
    if (i < n) {
      if (i < n1) (left.inTmp ? tmp : input)[i] = runs[i];
      else (right.inTmp ? tmp : input)[i] = runs[i];
    }
  // oracle: merge of the two runs
  KeyT w[VF_N];
  unsigned a = 0, b = n1, k = 0;
  while (a < n1 || b < n) {
    if (b >= n || (a < n1 && runs[a] <= runs[b])) w[k++] = runs[a++];
    else w[k++] = runs[b++];
  }
  left.join(right);
  VF_ASSERT(left.offset == 0 && left.length == n);
  const KeyT* res = left.inTmp ? tmp : input;
  for (unsigned i = 0; i < VF_N; i++)
    if (i < n) VF_ASSERT(res[i] == w[i]);
  VF_END();
}

// C14: the real Collider (collider.h): CreateRadixTree, BuildInternalBoxes,
// FindCollision, Box::Union/DoesOverlap, through the public Collider API.
#include "vf_harness.h"
#define private public
#include "collider.h"
#undef private
using namespace manifold;
using namespace manifold::collider_internal;
#ifndef VF_N
#define VF_N 4
#endif
#ifndef VF_BND
#define VF_BND 1e100
#endif

// --- C14.a structure of the radix tree, all sorted 32-bit Morton arrays
extern "C" void h_radix() {
  uint32_t morton[VF_N];
  int parent[2 * VF_N - 1];
  std::pair<int, int> children[VF_N - 1];
  for (int i = 0; i < VF_N; i++) {
    morton[i] = vf_nondet_u32();
    if (i) vf_assume(morton[i - 1] <= morton[i]);
  }
  for (int i = 0; i < 2 * VF_N - 1; i++) parent[i] = -1;
  for (int i = 0; i < VF_N - 1; i++) children[i] = {-1, -1};
  CreateRadixTree t{VecView<int>(parent, 2 * VF_N - 1),
                    VecView<std::pair<int, int>>(children, VF_N - 1),
                    VecView<const uint32_t>(morton, VF_N)};
  for (int i = 0; i < VF_N - 1; i++) t(i);
  // every node except the root has exactly one (internal) parent
  for (int i = 0; i < 2 * VF_N - 1; i++) {
    if (i == kRoot)
      VF_ASSERT(parent[i] == -1);
    else
      VF_ASSERT(parent[i] >= 0 && parent[i] % 2 == 1 && parent[i] < 2 * VF_N - 1);
  }
  // children are distinct, in range, and point back
  for (int i = 0; i < VF_N - 1; i++) {
    int a = children[i].first, b = children[i].second;
    VF_ASSERT(a >= 0 && a < 2 * VF_N - 1 && b >= 0 && b < 2 * VF_N - 1 && a != b);
    VF_ASSERT(parent[a] == 2 * i + 1 && parent[b] == 2 * i + 1);
  }
  // every leaf reaches the root
  for (int l = 0; l < VF_N; l++) {
    int node = 2 * l, steps = 0;
    while (node != kRoot && steps < VF_N) {
      node = parent[node];
      steps++;
    }
    VF_ASSERT(node == kRoot);
  }
  // internal node i covers a contiguous leaf range that contains leaf i, and
  // its children split that range: lo(child1)..hi(child1), hi(child1)+1..
  int lo[2 * VF_N - 1], hi[2 * VF_N - 1];
  for (int l = 0; l < VF_N; l++) lo[2 * l] = hi[2 * l] = l;
  // internal nodes: fixpoint by VF_N rounds (depth <= VF_N-1)
  for (int i = 0; i < VF_N - 1; i++) { lo[2 * i + 1] = -1; hi[2 * i + 1] = -1; }
  for (int round = 0; round < VF_N - 1; round++)
    for (int i = 0; i < VF_N - 1; i++) {
      int a = children[i].first, b = children[i].second;
      if (lo[a] >= 0 && lo[b] >= 0) { lo[2 * i + 1] = lo[a]; hi[2 * i + 1] = hi[b]; }
    }
  for (int i = 0; i < VF_N - 1; i++) {
    int a = children[i].first, b = children[i].second;
    VF_ASSERT(lo[2 * i + 1] >= 0);
    VF_ASSERT(hi[a] + 1 == lo[b]);
    VF_ASSERT(lo[2 * i + 1] <= i && i <= hi[2 * i + 1]);
  }
  VF_ASSERT(lo[kRoot] == 0 && hi[kRoot] == VF_N - 1);
  VF_END();
}

static Box SymBox() {
  Box b;
  b.min = vec3(vf_finite(VF_BND), vf_finite(VF_BND), vf_finite(VF_BND));
  b.max = vec3(vf_finite(VF_BND), vf_finite(VF_BND), vf_finite(VF_BND));
  return b;
}
// independent closed-interval oracle (NOT Box::DoesOverlap)
static bool Overlap(const Box& a, const Box& q) {
  return a.min.x <= q.max.x && q.min.x <= a.max.x && a.min.y <= q.max.y &&
         q.min.y <= a.max.y && a.min.z <= q.max.z && q.min.z <= a.max.z;
}
static bool OverlapPt(const Box& a, vec3 p) {
  return a.min.x <= p.x && p.x <= a.max.x && a.min.y <= p.y && p.y <= a.max.y;
}

struct Count {
  int* count;
  void operator()(int q, int leaf) {
    VF_ASSERT(leaf >= 0 && leaf < VF_N);
    VF_ASSERT(q == 0);
    if (leaf >= 0 && leaf < VF_N) count[leaf]++;
  }
};

// --- C14.c end to end: Collider(leafBB, leafMorton) then one Box query
template <bool self>
static void e2e_box() {
  Vec<Box> leafBB(VF_N);
  Vec<uint32_t> morton(VF_N);
  for (int i = 0; i < VF_N; i++) {
    leafBB[i] = SymBox();
    morton[i] = vf_nondet_u32();
    if (i) vf_assume(morton[i - 1] <= morton[i]);
  }
  Collider c(leafBB, morton);
  Vec<Box> queries(1);
  queries[0] = SymBox();
  int count[VF_N];
  for (int i = 0; i < VF_N; i++) count[i] = 0;
  Count f{count};
  auto rec = MakeSimpleRecorder(f);
  c.Collisions<self, Box>(rec, queries.cview(), false);
  for (int i = 0; i < VF_N; i++) {
    bool want = Overlap(leafBB[i], queries[0]) && !(self && i == 0);
    VF_ASSERT(count[i] == (want ? 1 : 0));
  }
  // the root box is the hull of the leaves
  Box root = c.GetBoundingBox();
  for (int i = 0; i < VF_N; i++) {
    VF_ASSERT(root.min.x <= leafBB[i].min.x && root.max.z >= leafBB[i].max.z);
    VF_ASSERT(root.min.y <= leafBB[i].min.y && root.max.y >= leafBB[i].max.y);
  }
  VF_END();
}
extern "C" void h_e2e_box() { e2e_box<false>(); }

// the same with an UNBOUNDED query box: MinGap pads face boxes by an infinite
// search length, half-space and whole-space queries are legal inputs; only an
// EMPTY box (min = +infinity, the default Box) may be skipped by the traversal
static double InfOrFinite() {
  double d = vf_nondet_f64();
  vf_assume(d == d);  // any value but NaN, +-infinity included
  return d;
}
extern "C" void h_e2e_box_inf() {
  Vec<Box> leafBB(VF_N);
  Vec<uint32_t> morton(VF_N);
  for (int i = 0; i < VF_N; i++) {
    leafBB[i] = SymBox();
    morton[i] = vf_nondet_u32();
    if (i) vf_assume(morton[i - 1] <= morton[i]);
  }
  Collider c(leafBB, morton);
  Vec<Box> queries(1);
  queries[0].min = vec3(InfOrFinite(), InfOrFinite(), InfOrFinite());
  queries[0].max = vec3(InfOrFinite(), InfOrFinite(), InfOrFinite());
  int count[VF_N];
  for (int i = 0; i < VF_N; i++) count[i] = 0;
  Count f{count};
  auto rec = MakeSimpleRecorder(f);
  c.Collisions<false, Box>(rec, queries.cview(), false);
  for (int i = 0; i < VF_N; i++) VF_ASSERT(count[i] == (Overlap(leafBB[i], queries[0]) ? 1 : 0));
  VF_END();
}
extern "C" void h_e2e_self() { e2e_box<true>(); }

// refit: UpdateBoxes with entirely new leaf boxes on an existing tree, then query
extern "C" void h_e2e_update() {
  Vec<Box> leafBB(VF_N), leafBB2(VF_N);
  Vec<uint32_t> morton(VF_N);
  for (int i = 0; i < VF_N; i++) {
    leafBB[i] = SymBox();
    leafBB2[i] = SymBox();
    morton[i] = vf_nondet_u32();
    if (i) vf_assume(morton[i - 1] <= morton[i]);
  }
  Collider c(leafBB, morton);
  c.UpdateBoxes(leafBB2);
  Vec<Box> queries(1);
  queries[0] = SymBox();
  int count[VF_N];
  for (int i = 0; i < VF_N; i++) count[i] = 0;
  Count f{count};
  auto rec = MakeSimpleRecorder(f);
  c.Collisions<false, Box>(rec, queries.cview(), false);
  for (int i = 0; i < VF_N; i++)
    VF_ASSERT(count[i] == (Overlap(leafBB2[i], queries[0]) ? 1 : 0));
  VF_END();
}

// refit invariant on CONCRETE tree shapes (Morton arrays fixed per query, so the
// radix tree is a constant after constant propagation) with symbolic old and
// new boxes: after UpdateBoxes every internal box is exactly the union of its
// two children, and a query reports exactly the overlapping leaves.
#ifndef VF_SHAPE
#define VF_SHAPE 0
#endif
extern "C" void h_refit() {
  static const uint32_t codes[5][4] = {{1, 2, 4, 8}, {7, 7, 7, 7}, {1, 1, 9, 9}, {1, 0x10000000, 0x20000000, 0x40000000}, {0, 2, 3, 0x30000000}};
  Vec<Box> leafBB(4), leafBB2(4);
  Vec<uint32_t> morton(4);
  for (int i = 0; i < 4; i++) {
    leafBB[i] = SymBox();
    leafBB2[i] = vf_bool() ? leafBB[i] : SymBox();  // a refit usually changes only some leaves
    morton[i] = codes[VF_SHAPE][i];
  }
  Collider c(leafBB, morton);
  c.UpdateBoxes(leafBB2);
  for (int k = 0; k < 3; k++) {
    const int node = 2 * k + 1;
    const Box a = c.nodeBBox_[c.internalChildren_[k].first], b = c.nodeBBox_[c.internalChildren_[k].second];
    const Box u = c.nodeBBox_[node];
    const double lo[3] = {a.min.x < b.min.x ? a.min.x : b.min.x, a.min.y < b.min.y ? a.min.y : b.min.y, a.min.z < b.min.z ? a.min.z : b.min.z};
    const double hi[3] = {a.max.x > b.max.x ? a.max.x : b.max.x, a.max.y > b.max.y ? a.max.y : b.max.y, a.max.z > b.max.z ? a.max.z : b.max.z};
    VF_ASSERT(u.min.x == lo[0] && u.min.y == lo[1] && u.min.z == lo[2]);
    VF_ASSERT(u.max.x == hi[0] && u.max.y == hi[1] && u.max.z == hi[2]);
  }
  for (int i = 0; i < 4; i++) {
    const Box l = c.nodeBBox_[2 * i];
    VF_ASSERT(l.min.x == leafBB2[i].min.x && l.max.z == leafBB2[i].max.z && l.min.y == leafBB2[i].min.y && l.max.y == leafBB2[i].max.y && l.min.z == leafBB2[i].min.z && l.max.x == leafBB2[i].max.x);
  }
  Vec<Box> queries(1);
  queries[0] = SymBox();
  int count[VF_N > 4 ? VF_N : 4];
  for (int i = 0; i < 4; i++) count[i] = 0;
  Count f{count};
  auto rec = MakeSimpleRecorder(f);
  c.Collisions<false, Box>(rec, queries.cview(), false);
  for (int i = 0; i < 4; i++) VF_ASSERT(count[i] == (Overlap(leafBB2[i], queries[0]) ? 1 : 0));
  VF_END();
}

// point query (projected in z), as used by the Boolean's vertex/face pass
extern "C" void h_e2e_point() {
  Vec<Box> leafBB(VF_N);
  Vec<uint32_t> morton(VF_N);
  for (int i = 0; i < VF_N; i++) {
    leafBB[i] = SymBox();
    morton[i] = vf_nondet_u32();
    if (i) vf_assume(morton[i - 1] <= morton[i]);
  }
  Collider c(leafBB, morton);
  Vec<vec3> queries(1);
  queries[0] = vec3(vf_finite(VF_BND), vf_finite(VF_BND), vf_finite(VF_BND));
  int count[VF_N];
  for (int i = 0; i < VF_N; i++) count[i] = 0;
  Count f{count};
  auto rec = MakeSimpleRecorder(f);
  c.Collisions<false, vec3>(rec, queries.cview(), false);
  for (int i = 0; i < VF_N; i++)
    VF_ASSERT(count[i] == (OverlapPt(leafBB[i], queries[0]) ? 1 : 0));
  VF_END();
}

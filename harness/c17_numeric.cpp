// C17 / C09.d numeric kernels: Quality settings -> segment counts, exact
// trigonometry at multiples of 90 degrees.
#include "vf_harness.h"
#include "manifold.cpp"
using namespace manifold;

// every setter argument, every radius: no UB, documented result shape
extern "C" void h_circular_segments() {
  Quality::ResetToDefaults();
  if (vf_bool()) Quality::SetMinCircularAngle(vf_nondet_f64());
  if (vf_bool()) Quality::SetMinCircularEdgeLength(vf_nondet_f64());
  int seg = vf_int();
  bool setSeg = vf_bool();
  if (setSeg) Quality::SetCircularSegments(seg);
#ifdef VF_EXCLUDE_KNOWN
  VF_EXCLUDE_KNOWN
#endif
  double radius = vf_nondet_f64();
  int n = Quality::GetCircularSegments(radius);
  if (setSeg && seg >= 3) VF_ASSERT(n == seg);
  else { VF_ASSERT(n >= 4); VF_ASSERT(n % 4 == 0); }
  VF_END();
}

// defaults (10 degrees, edge length 1): monotone in |radius|, between 4 and 36
extern "C" void h_circular_segments_default() {
  Quality::ResetToDefaults();
  double r1 = vf_nondet_f64(), r2 = vf_nondet_f64();
  int n1 = Quality::GetCircularSegments(r1), n2 = Quality::GetCircularSegments(r2);
  VF_ASSERT(n1 >= 4 && n1 <= 36 && n1 % 4 == 0);
  if (r1 == r1 && r2 == r2 && (r1 < 0 ? -r1 : r1) <= (r2 < 0 ? -r2 : r2)) VF_ASSERT(n1 <= n2);
  VF_ASSERT(Quality::GetCircularSegments(-r1) == n1);
  VF_END();
}

// sind / cosd are exact at multiples of 90 degrees
extern "C" void h_sind_exact() {
#ifndef VF_KMAX
#define VF_KMAX 1000000
#endif
  int k = vf_range(-VF_KMAX, VF_KMAX);
  double x = 90.0 * k;
  double s = sind(x), c = cosd(x);
  int m = ((k % 4) + 4) % 4;
  double ws = m == 0 ? 0.0 : m == 1 ? 1.0 : m == 2 ? 0.0 : -1.0;
  double wc = m == 0 ? 1.0 : m == 1 ? 0.0 : m == 2 ? -1.0 : 0.0;
  VF_ASSERT(s == ws);
  VF_ASSERT(c == wc);
  VF_END();
}
extern "C" void h_sind_nonfinite() {
  double x = vf_nondet_f64();
  vf_assume(!(x == x) || x - x != 0);  // NaN or +-inf
  double s = sind(x), c = cosd(x);
  VF_ASSERT(s != s && c != c);
  VF_END();
}

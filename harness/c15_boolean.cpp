// C15.b: the real Boolean3::Result on two tiny CONCRETE operands (two disjoint
// tetrahedra) with a SYMBOLIC cancellation schedule: every atomic load of
// ctx->cancel may flip the sticky oracle.  All mesh data is concrete, so the
// symbolic execution is an interpretation of the real pipeline (inclusion,
// vertex duplication, edge/face assembly, triangulation, properties,
// SimplifyTopology, SortGeometry); the only freedom is WHERE cancellation
// lands.  Checked: all-or-nothing.
#include <atomic>
#include <memory>
#include <vector>
#include <map>
#include "vf_harness.h"
#define private public
#include "impl.h"
#include "boolean3.h"
#undef private
#include "boolean_result.cpp"
#include "impl.cpp"
#include "edge_op.cpp"
#include "sort.cpp"
#include "properties.cpp"
#include "face_op.cpp"
#include "polygon.cpp"
#include "tree2d.cpp"
#include "boolean3.cpp"
using namespace manifold;
// ManifoldParams() lives in manifold.cpp (not part of this TU): default parameters
static ExecutionParams g_params;
extern "C" ExecutionParams* vf_stub_ManifoldParams() { return &g_params; }
extern "C" void h_boolean_cancel() {
  mat3x4 id = la::identity;
  mat3x4 shifted = la::identity;
  shifted[3] = vec3(10.0, 0.0, 0.0);
  Manifold::Impl p(Manifold::Impl::Shape::Tetrahedron, id);
  Manifold::Impl q(Manifold::Impl::Shape::Tetrahedron, shifted);
  ExecutionContext::Impl ctx;
  Boolean3 b(p, q, OpType::Add, &ctx);
  vf_register_cancel(reinterpret_cast<unsigned char*>(&ctx.cancel));
  Manifold::Impl r = b.Result(OpType::Add);
  if (vf_cancel_fired()) {
    VF_ASSERT(r.status_ == Manifold::Error::Cancelled);
    VF_ASSERT(r.NumTri() == 0 && r.NumVert() == 0);
  } else {
    VF_ASSERT(r.status_ == Manifold::Error::NoError);
    VF_ASSERT(r.NumTri() == 8 && r.NumVert() == 8);
    VF_ASSERT(ctx.donePhases.load() == kPhasesPerBoolean);
  }
  VF_ASSERT(ctx.donePhases.load() <= kPhasesPerBoolean);
  VF_END();
}

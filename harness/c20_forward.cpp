// C20: the forwarding wrappers of bindings/c/manifoldc.cpp.  Each wrapper must
// pass its arguments unchanged and IN ORDER to the C++ method it names, on the
// object it was given, copy-construct the result at the caller's address and
// destroy its temporary exactly once.  The C++ method, Manifold's copy
// constructor and destructor (manifold.cpp, another TU) are redirected to
// recording stubs with the same lowered signature; everything in between
// (from_c/to_c, vec3/mat3x4 construction, enum mapping, placement new) is the
// real binding code.
#include "vf_harness.h"
#include "conv.cpp"
#include "manifoldc.cpp"
using namespace manifold;
static double F() { return vf_nondet_f64(); }  // ANY double, NaN included: compared bitwise

struct Rec {
  int calls;
  const Manifold* self;
  const void* ret;       // where the method was asked to build its result
  const Manifold* other;
  double d[12];
  int nd;
  int i;
};
static Rec g;
static int g_copies, g_dtors;
static const void *g_copy_dst, *g_copy_src, *g_dtor_obj;
static uint64_t bits(double x) { uint64_t b; __builtin_memcpy(&b, &x, 8); return b; }
#define SAMEBITS(a, b) VF_ASSERT(bits(a) == bits(b))

extern "C" {
// Manifold(const Manifold&) and ~Manifold()
void vf_stub_copy(Manifold* dst, const Manifold* src) { g_copies++; g_copy_dst = dst; g_copy_src = src; }
void vf_stub_dtor(Manifold* obj) { g_dtors++; g_dtor_obj = obj; }
// method shapes (sret pointer first, then this, then the arguments)
void vf_stub_V3(Manifold* ret, const Manifold* self, vec3 v) {
  g.calls++; g.ret = ret; g.self = self; g.d[0] = v.x; g.d[1] = v.y; g.d[2] = v.z; g.nd = 3;
}
void vf_stub_V3D(Manifold* ret, const Manifold* self, vec3 v, double o) {
  g.calls++; g.ret = ret; g.self = self; g.d[0] = v.x; g.d[1] = v.y; g.d[2] = v.z; g.d[3] = o; g.nd = 4;
}
void vf_stub_DDD(Manifold* ret, const Manifold* self, double a, double b, double c) {
  g.calls++; g.ret = ret; g.self = self; g.d[0] = a; g.d[1] = b; g.d[2] = c; g.nd = 3;
}
void vf_stub_DD(Manifold* ret, const Manifold* self, double a, double b) {
  g.calls++; g.ret = ret; g.self = self; g.d[0] = a; g.d[1] = b; g.nd = 2;
}
void vf_stub_D(Manifold* ret, const Manifold* self, double a) {
  g.calls++; g.ret = ret; g.self = self; g.d[0] = a; g.nd = 1;
}
void vf_stub_I(Manifold* ret, const Manifold* self, int a) {
  g.calls++; g.ret = ret; g.self = self; g.i = a; g.nd = 0;
}
void vf_stub_M34(Manifold* ret, const Manifold* self, const mat3x4* m) {
  g.calls++; g.ret = ret; g.self = self; g.nd = 12;
  for (int c = 0; c < 4; c++)
    for (int r = 0; r < 3; r++) g.d[3 * c + r] = (*m)[c][r];
}
void vf_stub_MO(Manifold* ret, const Manifold* self, const Manifold* other, OpType op) {
  g.calls++; g.ret = ret; g.self = self; g.other = other; g.i = (int)op;
}
double vf_stub_MD(const Manifold* self, const Manifold* other, double a) {
  g.calls++; g.self = self; g.other = other; g.d[0] = a; g.nd = 1;
  return g.d[11];  // an arbitrary value planted by the harness: must come back unchanged
}
}

alignas(16) static unsigned char objA[sizeof(Manifold)], objB[sizeof(Manifold)], mem[sizeof(Manifold)];
static ManifoldManifold* A() { return reinterpret_cast<ManifoldManifold*>(objA); }
static ManifoldManifold* B() { return reinterpret_cast<ManifoldManifold*>(objB); }

// common postcondition of every wrapper that returns a new Manifold
static void built(ManifoldManifold* r) {
  VF_ASSERT(g.calls == 1);
  VF_ASSERT((const void*)g.self == (const void*)objA);      // called on the object that was passed
  VF_ASSERT((void*)r == (void*)mem);                        // result handle is the caller's storage
  VF_ASSERT(g_copies == 1 && g_copy_dst == (void*)mem && g_copy_src == g.ret);  // built there from the method's result
  VF_ASSERT(g_dtors == 1 && g_dtor_obj == g.ret);           // the temporary is destroyed once
}

#if VF_W == 1
extern "C" void h_fw() { double x = F(), y = F(), z = F();
  auto r = manifold_translate(mem, A(), x, y, z); built(r); SAMEBITS(g.d[0], x); SAMEBITS(g.d[1], y); SAMEBITS(g.d[2], z); VF_END(); }
#elif VF_W == 2
extern "C" void h_fw() { double x = F(), y = F(), z = F();
  auto r = manifold_scale(mem, A(), x, y, z); built(r); SAMEBITS(g.d[0], x); SAMEBITS(g.d[1], y); SAMEBITS(g.d[2], z); VF_END(); }
#elif VF_W == 3
extern "C" void h_fw() { double x = F(), y = F(), z = F();
  auto r = manifold_mirror(mem, A(), x, y, z); built(r); SAMEBITS(g.d[0], x); SAMEBITS(g.d[1], y); SAMEBITS(g.d[2], z); VF_END(); }
#elif VF_W == 4
extern "C" void h_fw() { double x = F(), y = F(), z = F();
  auto r = manifold_rotate(mem, A(), x, y, z); built(r); SAMEBITS(g.d[0], x); SAMEBITS(g.d[1], y); SAMEBITS(g.d[2], z); VF_END(); }
#elif VF_W == 5
extern "C" void h_fw() { double v[12]; for (int i = 0; i < 12; i++) v[i] = F();
  auto r = manifold_transform(mem, A(), v[0], v[1], v[2], v[3], v[4], v[5], v[6], v[7], v[8], v[9], v[10], v[11]);
  built(r); for (int i = 0; i < 12; i++) SAMEBITS(g.d[i], v[i]);  // column-major: (x1,y1,z1) is column 0 ...
  VF_END(); }
#elif VF_W == 6
extern "C" void h_fw() { double x = F(), y = F(), z = F(), o = F();
  auto r = manifold_trim_by_plane(mem, A(), x, y, z, o); built(r);
  SAMEBITS(g.d[0], x); SAMEBITS(g.d[1], y); SAMEBITS(g.d[2], z); SAMEBITS(g.d[3], o); VF_END(); }
#elif VF_W == 7
extern "C" void h_fw() { double a = F(), b = F();
  auto r = manifold_smooth_out(mem, A(), a, b); built(r); SAMEBITS(g.d[0], a); SAMEBITS(g.d[1], b); VF_END(); }
#elif VF_W == 8
extern "C" void h_fw() { double a = F();
  auto r = manifold_refine_to_length(mem, A(), a); built(r); SAMEBITS(g.d[0], a); VF_END(); }
#elif VF_W == 9
extern "C" void h_fw() { double a = F();
  auto r = manifold_refine_to_tolerance(mem, A(), a); built(r); SAMEBITS(g.d[0], a); VF_END(); }
#elif VF_W == 10
extern "C" void h_fw() { double a = F();
  auto r = manifold_set_tolerance(mem, A(), a); built(r); SAMEBITS(g.d[0], a); VF_END(); }
#elif VF_W == 11
extern "C" void h_fw() { double a = F();
  auto r = manifold_simplify(mem, A(), a); built(r); SAMEBITS(g.d[0], a); VF_END(); }
#elif VF_W == 12
extern "C" void h_fw() { int n = vf_int();
  auto r = manifold_refine(mem, A(), n); built(r); VF_ASSERT(g.i == n); VF_END(); }
#elif VF_W == 13
extern "C" void h_fw() {
  unsigned op = vf_nondet_u32(); vf_assume(op <= 2);
  auto r = manifold_boolean(mem, A(), B(), (ManifoldOpType)op); built(r);
  VF_ASSERT((const void*)g.other == (const void*)objB);
  const OpType want = op == MANIFOLD_ADD ? OpType::Add : op == MANIFOLD_SUBTRACT ? OpType::Subtract : OpType::Intersect;
  VF_ASSERT(g.i == (int)want);
  VF_END(); }
#elif VF_W == 14
extern "C" void h_fw() { double a = F(), planted = F(); g.d[11] = planted;
  double r = manifold_min_gap(A(), B(), a);
  VF_ASSERT(g.calls == 1 && (const void*)g.self == (const void*)objA && (const void*)g.other == (const void*)objB);
  SAMEBITS(g.d[0], a); SAMEBITS(r, planted); VF_ASSERT(g_copies == 0 && g_dtors == 0); VF_END(); }
#endif

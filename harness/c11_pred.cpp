// C11 leaf predicates of the 2D Boolean sweep (boolean2_sweep.cpp, anonymous
// namespace - reached by including the source file) and the shared kernels.
#include <algorithm>
#include <cmath>
#include <cstdint>
#include <cstdlib>
#include <map>
#include <set>
#include <utility>
#include <vector>
#include <atomic>
#include <memory>
#include <functional>
#include <mutex>
#include <numeric>
#include <limits>
#include "vf_harness.h"
#include "boolean2.h"
#include "shared.h"
#define private public   // SweepPass::Classify is a private member
#include "boolean2_sweep.cpp"
#undef private
using namespace manifold;
#ifndef VF_BND
#define VF_BND 1e100
#endif
static vec2 V2() { return vec2(vf_finite(VF_BND), vf_finite(VF_BND)); }

// LexLess keys std::map / sorts of points: must be a strict total order on
// non-NaN points (a violation is UB inside libstdc++)
extern "C" void h_lexless() {
  vec2 a = V2(), b = V2(), c = V2();
  VF_ASSERT(!kLexLess(a, a));
  VF_ASSERT(!(kLexLess(a, b) && kLexLess(b, a)));
  if (kLexLess(a, b) && kLexLess(b, c)) VF_ASSERT(kLexLess(a, c));
  if (!kLexLess(a, b) && !kLexLess(b, a)) VF_ASSERT(a.x == b.x && a.y == b.y);
  // agrees with the definition: x first, then y
  VF_ASSERT(kLexLess(a, b) == (a.x < b.x || (a.x == b.x && a.y < b.y)));
  VF_END();
}
extern "C" void h_pairlexless() {
  PairLexLess lt;
  std::pair<vec2, vec2> a{V2(), V2()}, b{V2(), V2()}, c{V2(), V2()};
  VF_ASSERT(!lt(a, a));
  VF_ASSERT(!(lt(a, b) && lt(b, a)));
  if (lt(a, b) && lt(b, c)) VF_ASSERT(lt(a, c));
  if (!lt(a, b) && !lt(b, a))
    VF_ASSERT(a.first.x == b.first.x && a.first.y == b.first.y && a.second.x == b.second.x && a.second.y == b.second.y);
  VF_END();
}
// fill rules on every 64-bit winding number
extern "C" void h_isinside() {
  int64_t w = (int64_t)vf_nondet_u64();
  VF_ASSERT(IsInside(WindRule::Add, w) == (w > 0));
  VF_ASSERT(IsInside(WindRule::Intersect, w) == (w > 1));
  bool odd = (w & 1) != 0;  // parity of the two's-complement value, also for negative w
  VF_ASSERT(IsInside(WindRule::EvenOdd, w) == odd);
  VF_END();
}
// OnInterior is exact: on small-integer lattice points it is true iff v lies
// strictly inside segment ab (integer cross product zero, strictly between)
#ifndef VF_R
#define VF_R 4
#endif
extern "C" void h_oninterior() {
  int ax = vf_range(-VF_R, VF_R), ay = vf_range(-VF_R, VF_R), bx = vf_range(-VF_R, VF_R), by = vf_range(-VF_R, VF_R);
  int vx = vf_range(-VF_R, VF_R), vy = vf_range(-VF_R, VF_R);
  vf_assume(ax != bx || ay != by);
  bool got = OnInterior(vec2(vx, vy), vec2(ax, ay), vec2(bx, by));
  int cross = (bx - ax) * (vy - ay) - (by - ay) * (vx - ax);
  int dot = (vx - ax) * (bx - ax) + (vy - ay) * (by - ay);
  int len2 = (bx - ax) * (bx - ax) + (by - ay) * (by - ay);
  bool want = cross == 0 && dot > 0 && dot < len2;
  if (got) VF_ASSERT(want);  // never a false positive (exact equality only)
  // no false negative when the interpolation is exact: axis-aligned segments
  if (want && (ax == bx || ay == by)) VF_ASSERT(got);
  VF_END();
}

// SweepPass::Classify - where does event point p lie relative to status edge e
// (l = processed end, r = pending end)?  Spec on the lattice, exact integer
// oracle: ENDS at the pending end; for a non-vertical edge over p.x the sign of
// the orientation decides UNDER/OVER, and p on the edge's processed end (or
// anywhere the interpolation is exact: endpoints) is ON; vertical edges by
// their y-range.
extern "C" void h_classify() {
  const int lx = vf_range(-VF_R, VF_R), ly = vf_range(-VF_R, VF_R), rx = vf_range(-VF_R, VF_R), ry = vf_range(-VF_R, VF_R);
  const int px = vf_range(-VF_R, VF_R), py = vf_range(-VF_R, VF_R);
  vf_assume(lx != rx || ly != ry);
  SweepPass sp(WindRule::Add, SweepMode::Arrangement);
  SweepEdge e{vec2(lx, ly), vec2(rx, ry), 1, 0};
  const Side got = sp.Classify(e, vec2(px, py));
  if (px == rx && py == ry) {
    VF_ASSERT(got == Side::ENDS);
  } else if (lx != rx) {
    // non-vertical: orient the edge left to right
    const int ax = lx < rx ? lx : rx, ay = lx < rx ? ly : ry, bx = lx < rx ? rx : lx, by = lx < rx ? ry : ly;
    if (px >= ax && px <= bx) {
      const long cross = (long)(bx - ax) * (py - ay) - (long)(by - ay) * (px - ax);  // > 0: p above the edge
      if (cross > 0) VF_ASSERT(got == Side::UNDER);   // the edge passes under p
      if (cross < 0) VF_ASSERT(got == Side::OVER);
      if (px == lx && py == ly) VF_ASSERT(got == Side::ON);  // p is the edge's own processed end
    }
  } else if (px == lx) {
    // vertical edge through p.x
    const int ylo = ly < ry ? ly : ry, yhi = ly < ry ? ry : ly;
    if (px == lx && py == ly) VF_ASSERT(got == (ry > py ? Side::OVER : Side::UNDER));
    else if (yhi <= py) VF_ASSERT(got == Side::UNDER);
    else if (ylo >= py) VF_ASSERT(got == Side::OVER);
    else VF_ASSERT(got == Side::ON);
  }
  VF_END();
}

// SweepPass::PendingAdd (reached through the public Seed): pending_ is a
// signed multiset of directed sub-edges keyed by their lex-ordered end points.
// After any three additions the stored multiplicity of every edge is the
// signed sum of what was added, nothing with multiplicity 0 is stored, no empty
// inner map is left behind, and both end points of every stored edge are
// scheduled as events.
#ifndef VF_PA
#define VF_PA 3
#endif
extern "C" void h_pending_add() {
  SweepPass sp(WindRule::Add, SweepMode::Arrangement);
  int ax[VF_PA], ay[VF_PA], bx[VF_PA], by[VF_PA], m[VF_PA];
  for (int k = 0; k < VF_PA; k++) {
    // a 2x2 lattice keeps the three edges colliding often
    ax[k] = vf_range(0, 1); ay[k] = vf_range(0, 1); bx[k] = vf_range(0, 1); by[k] = vf_range(0, 1);
    m[k] = vf_range(-2, 2);
    sp.Seed(vec2(ax[k], ay[k]), vec2(bx[k], by[k]), m[k]);
  }
  // query edge u -> v with u lex-smaller than v
  const int ux = vf_range(0, 1), uy = vf_range(0, 1), vx = vf_range(0, 1), vy = vf_range(0, 1);
  vf_assume(ux < vx || (ux == vx && uy < vy));
  long want = 0;
  for (int k = 0; k < VF_PA; k++) {
    if (ax[k] == ux && ay[k] == uy && bx[k] == vx && by[k] == vy) want += m[k];
    if (bx[k] == ux && by[k] == uy && ax[k] == vx && ay[k] == vy) want -= m[k];
  }
  long got = 0;
  bool innerEmpty = false;
  auto pit = sp.pending_.find(vec2(ux, uy));
  if (pit != sp.pending_.end()) {
    innerEmpty = pit->second.empty();
    auto it = pit->second.find(vec2(vx, vy));
    if (it != pit->second.end()) {
      got = it->second;
      VF_ASSERT(got != 0);  // cancelled edges are erased, not kept at zero
      VF_ASSERT(sp.events_.find(vec2(ux, uy)) != sp.events_.end());
      VF_ASSERT(sp.events_.find(vec2(vx, vy)) != sp.events_.end());
    }
  }
  VF_ASSERT(!innerEmpty);
  VF_ASSERT(got == want);
  VF_END();
}

// PolySetAdd: the same signed-multiset discipline for the output arrangement
extern "C" void h_polyset_add() {
  PolySet2 ps;
  int ax[VF_PA], ay[VF_PA], bx[VF_PA], by[VF_PA], m[VF_PA];
  for (int k = 0; k < VF_PA; k++) {
    ax[k] = vf_range(0, 1); ay[k] = vf_range(0, 1); bx[k] = vf_range(0, 1); by[k] = vf_range(0, 1);
    m[k] = vf_range(-2, 2);
    PolySetAdd(ps, vec2(ax[k], ay[k]), vec2(bx[k], by[k]), m[k]);
  }
  const int ux = vf_range(0, 1), uy = vf_range(0, 1), vx = vf_range(0, 1), vy = vf_range(0, 1);
  vf_assume(ux < vx || (ux == vx && uy < vy));
  long want = 0;
  for (int k = 0; k < VF_PA; k++) {
    if (ax[k] == ux && ay[k] == uy && bx[k] == vx && by[k] == vy) want += m[k];
    if (bx[k] == ux && by[k] == uy && ax[k] == vx && ay[k] == vy) want -= m[k];
  }
  long got = 0;
  auto it = ps.find({vec2(ux, uy), vec2(vx, vy)});
  if (it != ps.end()) { got = it->second; VF_ASSERT(got != 0); }
  // reversed keys are never stored
  VF_ASSERT(ps.find({vec2(vx, vy), vec2(ux, uy)}) == ps.end());
  VF_ASSERT(got == want);
  VF_END();
}

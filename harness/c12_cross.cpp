// C12: Hull (monotone chain) and Simplify (SimplifyRing) of CrossSection,
// anonymous-namespace functions of cross_section.cpp.
#include "vf_harness.h"
#include "cross_section.cpp"
using namespace manifold;
#ifndef VF_LEN
#define VF_LEN 4
#endif
#ifndef VF_R
#define VF_R 2
#endif
static long orient(long ax, long ay, long bx, long by, long cx, long cy) {
  return (bx - ax) * (cy - ay) - (by - ay) * (cx - ax);
}
// HullImpl on lattice points (duplicates and collinear triples allowed)
extern "C" void h_hull() {
  int x[VF_LEN], y[VF_LEN];
  SimplePolygon pts;
  for (int i = 0; i < VF_LEN; i++) {
    x[i] = vf_range(-VF_R, VF_R);
    y[i] = vf_range(-VF_R, VF_R);
    pts.push_back(vec2(x[i], y[i]));
  }
  SimplePolygon h = HullImpl(pts);
  const int m = (int)h.size();
  VF_ASSERT(m <= VF_LEN);
  int hx[VF_LEN], hy[VF_LEN];
  for (int k = 0; k < VF_LEN; k++) {
    if (k < m) {
      // every hull vertex is an input point
      bool found = false;
      for (int i = 0; i < VF_LEN; i++)
        if (h[k].x == (double)x[i] && h[k].y == (double)y[i]) found = true;
      VF_ASSERT(found);
      hx[k] = (int)h[k].x;
      hy[k] = (int)h[k].y;
    }
  }
  // not all collinear => a proper polygon comes back
  bool spans = false;
  for (int i = 0; i < VF_LEN; i++)
    for (int j = 0; j < VF_LEN; j++)
      for (int k = 0; k < VF_LEN; k++)
        if (orient(x[i], y[i], x[j], y[j], x[k], y[k]) != 0) spans = true;
  if (spans) VF_ASSERT(m >= 3);
  if (m >= 3) {
    for (int k = 0; k < VF_LEN; k++)
      if (k < m) {
        int a = k, b = (k + 1) % m, c = (k + 2) % m;
        // strictly convex, counter-clockwise
        VF_ASSERT(orient(hx[a], hy[a], hx[b], hy[b], hx[c], hy[c]) > 0);
        // contains every input point (on or to the left of every edge)
        for (int i = 0; i < VF_LEN; i++)
          VF_ASSERT(orient(hx[a], hy[a], hx[b], hy[b], x[i], y[i]) >= 0);
      }
  }
  VF_END();
}

// SimplifyRing: in-order subsequence, never below 3 vertices, and when more
// than 3 remain every remaining vertex deviates by >= tol from the line
// through its remaining neighbours (same float expression as the code)
extern "C" void h_simplify() {
  SimplePolygon ring;
  for (int i = 0; i < VF_LEN; i++) ring.push_back(vec2(vf_range(-VF_R, VF_R), vf_range(-VF_R, VF_R)));
  double tol = vf_finite(16);
  SimplePolygon out = SimplifyRing(ring, tol);
  const int m = (int)out.size();
  VF_ASSERT(m <= VF_LEN && m >= (VF_LEN < 3 ? VF_LEN : 3));
  // subsequence: greedy match
  int pos = 0;
  int idx[VF_LEN];
  for (int k = 0; k < VF_LEN; k++)
    if (k < m) {
      while (pos < VF_LEN && !(ring[pos].x == out[k].x && ring[pos].y == out[k].y)) pos++;
      VF_ASSERT(pos < VF_LEN);
      idx[k] = pos;
      pos++;
    }
  if (m > 3) {
    const double tol2 = tol * tol;
    for (int k = 0; k < VF_LEN; k++)
      if (k < m) {
        const vec2 P = out[(k + m - 1) % m], N = out[(k + 1) % m];
        const vec2 pn = N - P;
        const double pnLen2 = la::dot(pn, pn);
        const double cross = la::cross(out[k] - P, pn);
        const double d2 = pnLen2 > 0.0 ? cross * cross / pnLen2 : 0.0;
        VF_ASSERT(d2 >= tol2);
      }
  }
  VF_END();
}

// C18 (and the query side of C02): the real Manifold::Impl::RayCast
// (boolean3.cpp) - Kernel12<false,true> with zero perturbation from the ray,
// the real Collider, the t filter and the final sort - against an exact
// integer oracle on lattice geometry.
#include "vf_harness.h"
#define private public
#include "collider.h"
#undef private
#include "boolean3.cpp"
using namespace manifold;
#ifndef VF_AXIS
#define VF_AXIS 0  // the segment is parallel to this axis (either direction)
#endif
#ifndef VF_R
#define VF_R 2
#endif
typedef long long i64;
struct P3 { i64 x, y, z; };
static i64 det3(P3 a, P3 b, P3 c) {
  return a.x * (b.y * c.z - b.z * c.y) - a.y * (b.x * c.z - b.z * c.x) + a.z * (b.x * c.y - b.y * c.x);
}
static P3 sub(P3 a, P3 b) { return {a.x - b.x, a.y - b.y, a.z - b.z}; }
static i64 orient3(P3 a, P3 b, P3 c, P3 d) { return det3(sub(b, a), sub(c, a), sub(d, a)); }
static i64 orient2(P3 a, P3 b, P3 c) { return (b.x - a.x) * (c.y - a.y) - (b.y - a.y) * (c.x - a.x); }
static int sgn(i64 v) { return v > 0 ? 1 : v < 0 ? -1 : 0; }
static vec3 D(P3 p) { return vec3((double)p.x, (double)p.y, (double)p.z); }
static P3 L() { return {vf_range(-VF_R, VF_R), vf_range(-VF_R, VF_R), vf_range(-VF_R, VF_R)}; }

extern "C" void h_raycast() {
  // ---- the mesh: one symbolic lattice triangle (face 0) whose three edges
  // are paired with one-halfedge neighbour stubs (faces 1..3), exactly the
  // storage Kernel12 reads: Start/Pair of the face's halfedges, vertex
  // positions and normals, the face normals of the face and of its neighbours
#ifdef VF_CONCRETE_TRI
  // one concrete triangle in general position (distinct x, y, z everywhere);
  // the SEGMENT stays symbolic: both directions of travel, every start/end
  // relation to the surface
  P3 T[3] = {{2, -2, -1}, {-1, 2, -2}, {-2, -1, 2}};
  {  // rotate the coordinate roles with the axis so that each axis sees the same geometry
    for (int i = 0; i < 3; i++)
      for (int r = 0; r < VF_AXIS; r++) { const i64 t = T[i].z; T[i].z = T[i].y; T[i].y = T[i].x; T[i].x = t; }
  }
#else
  P3 T[3] = {L(), L(), L()};
#endif
  Manifold::Impl m;
  m.vertPos_.resize(3, vec3(0.0));
  m.vertNormal_.resize(3, vec3(0.0));
  for (int i = 0; i < 3; i++) {
    m.vertPos_[i] = D(T[i]);
#ifdef VF_SYM_NORMALS
    m.vertNormal_[i] = vec3(vf_finite(8), vf_finite(8), vf_finite(8));
#endif
  }
  m.faceNormal_.resize(4, vec3(0.0));
#ifdef VF_SYM_NORMALS  // normals only break exact ties; the default keeps them zero
  for (int i = 0; i < 4; i++) m.faceNormal_[i] = vec3(vf_finite(8), vf_finite(8), vf_finite(8));
#endif
  m.halfedge_.resize(12);
#ifdef VF_SYM_NUMBERING
  int v0 = vf_range(0, 2), v1 = vf_range(0, 2), v2 = vf_range(0, 2);
  vf_assume(v0 != v1 && v1 != v2 && v0 != v2);
  const int tv[3] = {v0, v1, v2};
#else  // the vertex POSITIONS are symbolic, so one numbering already covers both orientations
  const int tv[3] = {0, 1, 2};
#endif
  for (int i = 0; i < 3; i++) {
    m.halfedge_.Set(i, tv[i], 3 * (i + 1), tv[i]);
    m.halfedge_.Set(3 * (i + 1), tv[(i + 1) % 3], i, tv[(i + 1) % 3]);
    m.halfedge_.Set(3 * (i + 1) + 1, tv[i], -1, tv[i]);
    m.halfedge_.Set(3 * (i + 1) + 2, -1, -1, -1);
  }
  // the real collider over the face boxes (one far-away box stands for the rest of the surface;
  // the neighbour stubs are not faces)
  Vec<Box> leafBB(2);
  Vec<uint32_t> morton(2);
  leafBB[0] = Box(la::min(m.vertPos_[0], la::min(m.vertPos_[1], m.vertPos_[2])),
                  la::max(m.vertPos_[0], la::max(m.vertPos_[1], m.vertPos_[2])));
  leafBB[1] = Box(vec3(100.0), vec3(100.5));
  for (int i = 0; i < 2; i++) morton[i] = i;
  m.collider_ = Collider(leafBB, morton);

  // ---- the segment: parallel to axis VF_AXIS, either direction, may start or
  // end anywhere on the lattice line (also inside the triangle's slab)
  P3 o = L(), e = o;
  i64 other = vf_range(-VF_R - 1, VF_R + 1);
  if (VF_AXIS == 0) { o.x = vf_range(-VF_R - 1, VF_R + 1); e.x = other; }
  if (VF_AXIS == 1) { o.y = vf_range(-VF_R - 1, VF_R + 1); e.y = other; }
  if (VF_AXIS == 2) { o.z = vf_range(-VF_R - 1, VF_R + 1); e.z = other; }
  const vec3 origin = D(o), endpoint = D(e);

  std::vector<RayHit> hits = m.RayCast(origin, endpoint);

  // (a) for EVERY input in the bound, degenerate ones included: what is
  // returned is well formed
  VF_ASSERT(hits.size() <= 1);  // one surface triangle
  for (size_t i = 0; i < hits.size(); i++) {
    VF_ASSERT(hits[i].faceID == 0);
    VF_ASSERT(hits[i].distance >= 0.0 && hits[i].distance <= 1.0);
    // the position is on the segment: the two constant coordinates are kept,
    // the third agrees with origin + t * dir (loose tolerance: the kernel
    // runs in a reduced float format here)
    for (int k = 0; k < 3; k++) {
      const double want = origin[k] + hits[i].distance * (endpoint[k] - origin[k]);
      const double d = hits[i].position[k] - want;
      VF_ASSERT(d > -0.25 && d < 0.25);
    }
  }
  // (b) in general position the hit set is exactly the proper crossings
  const i64 o0 = orient3(T[0], T[1], T[2], o), o1 = orient3(T[0], T[1], T[2], e);
  const i64 s0 = orient3(o, e, T[0], T[1]), s1 = orient3(o, e, T[1], T[2]), s2 = orient3(o, e, T[2], T[0]);
  bool generic = o0 != 0 && o1 != 0 && s0 != 0 && s1 != 0 && s2 != 0 && !(o.x == e.x && o.y == e.y && o.z == e.z);
  // ... and nothing coincides in the projections the cascade works in: no
  // equal x between a segment end and a triangle vertex, no segment end on a
  // projected triangle edge, no triangle vertex on the projected segment
  const P3 ends[2] = {o, e};
  for (int a = 0; a < 2; a++)
    for (int i = 0; i < 3; i++) {
      if (ends[a].x == T[i].x) generic = false;
      if (orient2(ends[a], T[i], T[(i + 1) % 3]) == 0) generic = false;
    }
  if (VF_AXIS != 2)
    for (int i = 0; i < 3; i++)
      if (orient2(T[i], o, e) == 0) generic = false;
  if (generic) {
    const bool cross = sgn(o0) != sgn(o1) && sgn(s0) == sgn(s1) && sgn(s1) == sgn(s2);
    VF_ASSERT(hits.size() == (cross ? 1u : 0u));
  }
  VF_END();
}

// C10.c: the gate of the convex fast path.  If IsConvex accepts a polygon the
// zig-zag TriangulateConvex is used, which is only correct for a strictly
// convex counter-clockwise contour.  On lattice polygons (exact integer
// oracle): IsConvex == true implies no consecutive vertex triple turns right
// (no reflex vertex) and no edge has zero length (repeated points included).
#include "vf_harness.h"
#include "polygon.cpp"
using namespace manifold;
#ifndef VF_LEN
#define VF_LEN 4
#endif
#ifndef VF_R
#define VF_R 2
#endif
extern "C" void h_isconvex() {
  int x[VF_LEN], y[VF_LEN];
  SimplePolygonIdx poly;
  for (int i = 0; i < VF_LEN; i++) {
    x[i] = vf_range(-VF_R, VF_R);
    y[i] = vf_range(-VF_R, VF_R);
    poly.push_back({vec2(x[i], y[i]), i});
  }
  PolygonsIdx polys;
  polys.push_back(poly);
  // A contour whose vertices are ALL the same point is accepted by IsConvex (every edge
  // normalises to NaN); any triangulation of it is valid within epsilon, so it is not a
  // counterexample to the fast path being admissible and is excluded here.
  bool allSame = true;
  for (int i = 1; i < VF_LEN; i++)
    if (x[i] != x[0] || y[i] != y[0]) allSame = false;
  vf_assume(!allSame);
  double eps = vf_finite(4);
  vf_assume(eps >= 0);
  const bool convex = IsConvex(polys, eps);
  if (convex) {
    for (int i = 0; i < VF_LEN; i++) {
      const int a = (i + VF_LEN - 1) % VF_LEN, b = i, c = (i + 1) % VF_LEN;
      const long cross = (long)(x[b] - x[a]) * (y[c] - y[b]) - (long)(y[b] - y[a]) * (x[c] - x[b]);
      // no reflex vertex.  (An exactly collinear triple has cross == 0; whether IsConvex
      // rejects it depends on the rounding of normalize(), so it is not asserted either way.)
      VF_ASSERT(cross >= 0);
      VF_ASSERT(x[b] != x[c] || y[b] != y[c]);      // no zero-length edge
    }
  }
  VF_END();
}

// C18: queries that must agree with their brute-force definitions:
// CalculateBBox (tight box of the vertices, NaN vertices ignored), IsFinite,
// IsIndexInBounds, the counting accessors.
#include <atomic>
#include <memory>
#include <vector>
#include <map>
#include "vf_harness.h"
#define private public
#include "impl.h"
#undef private
#include "properties.cpp"
using namespace manifold;
#ifndef VF_V
#define VF_V 3
#endif
// the real MakeEmpty lives in impl.cpp (another TU); record the call instead
static int g_made_empty = 0;
extern "C" void vf_stub_MakeEmpty(Manifold::Impl* self, int status) { g_made_empty++; }

extern "C" void h_bbox() {
  Manifold::Impl impl;
  impl.vertPos_.resize(VF_V, vec3(0.0));
  bool isnan_[VF_V];
  for (int i = 0; i < VF_V; i++) {
    isnan_[i] = vf_bool();
    if (isnan_[i]) impl.vertPos_[i] = vec3(NAN);  // how the library tombstones a vertex
    else impl.vertPos_[i] = vec3(vf_finite(1e300), vf_finite(1e300), vf_finite(1e300));
  }
  impl.CalculateBBox();
  bool any = false;
  double lo[3], hi[3];
  for (int k = 0; k < 3; k++) { lo[k] = 0; hi[k] = 0; }
  for (int i = 0; i < VF_V; i++)
    if (!isnan_[i]) {
      for (int k = 0; k < 3; k++) {
        const double v = impl.vertPos_[i][k];
        if (!any || v < lo[k]) lo[k] = v;
        if (!any || v > hi[k]) hi[k] = v;
      }
      any = true;
    }
  if (any) {
    for (int k = 0; k < 3; k++) VF_ASSERT(impl.bBox_.min[k] == lo[k] && impl.bBox_.max[k] == hi[k]);
    VF_ASSERT(g_made_empty == 0);
  } else {
    VF_ASSERT(g_made_empty == 1);  // nothing finite: "decimated out of existence"
  }
  VF_END();
}
extern "C" void h_isfinite() {
  Manifold::Impl impl;
  impl.vertPos_.resize(VF_V, vec3(0.0));
  bool all = true;
  for (int i = 0; i < VF_V; i++) {
    impl.vertPos_[i] = vec3(vf_nondet_f64(), vf_nondet_f64(), vf_nondet_f64());
    for (int k = 0; k < 3; k++) {
      const double v = impl.vertPos_[i][k];
      if (!(v - v == 0)) all = false;  // NaN or infinity
    }
  }
  VF_ASSERT(impl.IsFinite() == all);
  VF_END();
}
extern "C" void h_index_in_bounds() {
  Manifold::Impl impl;
  impl.vertPos_.resize(VF_V, vec3(0.0));
  Vec<ivec3> tv(2);
  bool ok = true;
  for (int t = 0; t < 2; t++)
    for (int k = 0; k < 3; k++) {
      tv[t][k] = vf_int();
      if (tv[t][k] < 0 || tv[t][k] >= VF_V) ok = false;
    }
  VF_ASSERT(impl.IsIndexInBounds(tv) == ok);
  // counting accessors
  impl.halfedge_.resize(6);
  VF_ASSERT(impl.NumTri() == 2 && impl.NumEdge() == 3 && impl.NumVert() == VF_V && !impl.IsEmpty());
  impl.numProp_ = 0;
  VF_ASSERT(impl.NumPropVert() == VF_V);
  impl.numProp_ = 2;
  impl.properties_.resize(8, 0.0);
  VF_ASSERT(impl.NumPropVert() == 4);
  VF_END();
}

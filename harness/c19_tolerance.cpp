// C19.d / C18: tolerance floor and bounding box.
#include <atomic>
#include <memory>
#include <vector>
#include <map>
#include "vf_harness.h"
#define private public
#include "impl.h"
#undef private
#include "impl.cpp"
using namespace manifold;
static double D() { return vf_nondet_f64(); }
// SetEpsilon for every bounding box / tolerance / minEpsilon bit pattern:
// tolerance never ends below epsilon; epsilon is -1 or a finite value >= both
// minEpsilon and kPrecision*scale; tolerance never decreases
extern "C" void h_set_epsilon() {
  Manifold::Impl impl;
  impl.bBox_.min = vec3(D(), D(), D());
  impl.bBox_.max = vec3(D(), D(), D());
  impl.tolerance_ = D();
  const double tol0 = impl.tolerance_;
  double minEps = D();
  bool single = vf_bool();
  impl.SetEpsilon(minEps, single);
  const double e = impl.epsilon_, t = impl.tolerance_;
  VF_ASSERT(e == -1 || (e == e && e - e == 0));          // -1 or finite
  if (e != -1 && minEps == minEps) VF_ASSERT(e >= minEps);
  if (tol0 == tol0) VF_ASSERT(t >= tol0);                 // never lowered
  if (t == t) VF_ASSERT(t >= e);                          // floor
  VF_END();
}
// MaxEpsilon on finite boxes: scale * kPrecision, at least minEpsilon
extern "C" void h_max_epsilon() {
  Box b;
  b.min = vec3(vf_finite(1e100), vf_finite(1e100), vf_finite(1e100));
  b.max = vec3(vf_finite(1e100), vf_finite(1e100), vf_finite(1e100));
  double minEps = vf_finite(1e100);
  double e = MaxEpsilon(minEps, b);
  VF_ASSERT(e >= minEps && e >= 0 - 0 * e);
  VF_ASSERT(e >= kPrecision * b.Scale());
  VF_ASSERT(e == minEps || e == kPrecision * b.Scale());
  VF_END();
}

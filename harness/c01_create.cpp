// C01 / C09: Impl::CreateHalfedges (impl.cpp) - the step of the import
// constructor that pairs directed edges by sorting and removes opposed
// duplicate triangles - on ARBITRARY triangle lists (what the validation
// ladder lets through: indices in range, three distinct vertices per
// triangle; NOT necessarily manifold).
#include "vf_harness.h"
#include "impl.cpp"
#include "properties.cpp"
#include "c01_common.h"
using namespace manifold;
#ifndef VF_T
#define VF_T 4
#endif
#ifndef VF_V
#define VF_V 4
#endif
extern "C" void h_create_halfedges() {
  constexpr int n = 3 * VF_T;
  Manifold::Impl impl;
  impl.vertPos_.resize(VF_V, vec3(0.0));
  Vec<ivec3> tri(VF_T);
  int v[VF_T][3];
  for (int t = 0; t < VF_T; t++) {
    for (int i = 0; i < 3; i++) v[t][i] = vf_range(0, VF_V - 1);
    vf_assume(v[t][0] != v[t][1] && v[t][1] != v[t][2] && v[t][2] != v[t][0]);
    tri[t] = ivec3(v[t][0], v[t][1], v[t][2]);
  }
  impl.CreateHalfedges(tri);
  // (memory safety inside CreateHalfedges: harvested Vec bounds ASSERTs and
  // the solver's pointer checks)
  VF_ASSERT((int)impl.halfedge_.size() == n);
  // every triangle either survives verbatim or is tombstoned as a whole
  bool dead[VF_T];
  for (int t = 0; t < VF_T; t++) {
    const bool d0 = impl.halfedge_.Start(3 * t) == -1;
    dead[t] = d0;
    for (int i = 0; i < 3; i++) {
      const int h = 3 * t + i;
      if (d0) VF_ASSERT(impl.halfedge_.Start(h) == -1 && impl.halfedge_.Pair(h) == -1);
      else VF_ASSERT(impl.halfedge_.Start(h) == v[t][i] && impl.halfedge_.Prop(h) == v[t][i]);
      const int p = impl.halfedge_.Pair(h);
      VF_ASSERT(p >= -1 && p < n);  // what the IsManifold gate (ismanifold_gate) requires of its input
    }
  }
  // a triangle is only removed together with an opposed duplicate of it
  for (int t = 0; t < VF_T; t++)
    if (dead[t]) {
      bool partner = false;
      for (int u = 0; u < VF_T; u++)
        if (u != t && dead[u])
          for (int r = 0; r < 3; r++)  // u is t reversed, at some rotation
            if (v[u][0] == v[t][r] && v[u][1] == v[t][(r + 2) % 3] && v[u][2] == v[t][(r + 1) % 3]) partner = true;
      VF_ASSERT(partner);
    }
  // completeness: a closed oriented manifold without opposed duplicates
  // (every directed edge once, its reverse once) is paired up and accepted
  bool closed = true;
  for (int t = 0; t < VF_T; t++)
    for (int i = 0; i < 3; i++) {
      const int a = v[t][i], b = v[t][(i + 1) % 3];
      int same = 0, rev = 0;
      for (int u = 0; u < VF_T; u++)
        for (int j = 0; j < 3; j++) {
          if (v[u][j] == a && v[u][(j + 1) % 3] == b) same++;
          if (v[u][j] == b && v[u][(j + 1) % 3] == a) rev++;
        }
      if (same != 1 || rev != 1) closed = false;
    }
  if (closed) {
    for (int t = 0; t < VF_T; t++) VF_ASSERT(!dead[t]);
    VF_ASSERT(impl.IsManifold());
    VF_ASSERT(InvI(impl.halfedge_, n, VF_V));
  }
  VF_END();
}

// C05.a: copy-on-write SharedVec (src/vec.h Vec<T,true>) and the Halfedges
// wrapper (src/shared.h): an arbitrary operation on one handle never changes
// what another handle observes; all blocks are freed exactly once.
#include <utility>
#include "vf_harness.h"
#define private public   // Halfedges::start_/paired_/propVert_ are inspected to check that storage IS shared
#include "shared.h"
#undef private
using namespace manifold;
#ifndef VF_N
#define VF_N 3
#endif
// address of the storage block, read through a const reference (no detach)
template <typename V> static const void* CP(const V& v) { return static_cast<const void*>(v.data()); }
struct Snap {
  size_t n;
  int v[VF_N + 2];
};
static Snap snap(const SharedVec<int>& x) {
  Snap s;
  s.n = x.size();
  for (size_t i = 0; i < VF_N + 2; i++) s.v[i] = i < x.size() ? x[i] : 0;
  return s;
}
static void same(const Snap& s, const SharedVec<int>& x) {
  VF_ASSERT(x.size() == s.n);
  for (size_t i = 0; i < VF_N + 2; i++)
    if (i < s.n) VF_ASSERT(x[i] == s.v[i]);
}
static void fillsym(SharedVec<int>& x) {
  unsigned n = vf_nondet_u32();
  vf_assume(n <= VF_N);
  x.resize(n, 0);
  for (unsigned i = 0; i < VF_N; i++)
    if (i < n) x[i] = vf_int();
}
// one arbitrary mutation through the library's discipline (MakeUnique first)
static void mutate(SharedVec<int>& x, SharedVec<int>& other) {
  unsigned op = vf_nondet_u32() % 9;
  switch (op) {
    case 8: {  // re-seat the handle on storage moved in from an UNSHARED Vec (Vec<T,true>::operator=(Vec<T,false>&&));
               // afterwards the remaining sharers must still detach from each other correctly
      Vec<int> u(other.view());
      x = std::move(u);
      x.MakeUnique();
      if (x.size() > 0) x[0] = vf_int();
      other.MakeUnique();
      if (other.size() > 0) other[0] = other[0];
      break;
    }
    case 0: x.MakeUnique(); x.push_back(vf_int()); break;
    case 1: x.MakeUnique(); x.resize(vf_range(0, VF_N + 1), vf_int()); break;
    case 2: x.MakeUnique(); x.clear(vf_bool()); break;
    case 3: x.MakeUnique(); if (x.size() > 0) x[vf_nondet_u32() % x.size()] = vf_int(); break;
    case 4: x = other; break;                       // share
    case 5: x = SharedVec<int>(other.view()); break;  // move-assign a fresh copy
    case 6: x.MakeUnique(); if (x.size() > 0) x.pop_back(); break;
    default: { SharedVec<int> tmp(std::move(x)); tmp.MakeUnique(); tmp.push_back(1); } break;  // moved-from then destroyed
  }
}
extern "C" void h_sharedvec() {
  SharedVec<int> a;
  fillsym(a);
  // sharing configuration of three handles
#ifdef VF_CFG
  unsigned cfg = VF_CFG;
#else
  unsigned cfg = vf_nondet_u32() % 5;
#endif
  {
    SharedVec<int> b, c;
    if (cfg == 0) { b = a; c = a; }
    else if (cfg == 1) { b = a; fillsym(c); }
    else if (cfg == 2) { fillsym(b); c = b; }
    else if (cfg == 3) { fillsym(b); fillsym(c); }
    else { SharedVec<int> t(a); b = t; c = std::move(t); }
    // the configuration the obligation is about really is one of shared
    // storage (copy ASSIGNMENT shares, copy construction deep-copies)
    if (cfg == 0 && a.size()) VF_ASSERT(CP(b) == CP(a) && CP(c) == CP(a));
    if (cfg == 1 && a.size()) VF_ASSERT(CP(b) == CP(a));
    if (cfg == 2 && b.size()) VF_ASSERT(CP(c) == CP(b));
    if (cfg == 4 && b.size()) VF_ASSERT(CP(c) == CP(b) && CP(b) != CP(a));
    Snap sa = snap(a), sb = snap(b), sc = snap(c);
    unsigned who = vf_nondet_u32() % 3;
    if (who == 0) { mutate(a, b); same(sb, b); same(sc, c); }
    else if (who == 1) { mutate(b, c); same(sa, a); same(sc, c); }
    else { mutate(c, a); same(sa, a); same(sb, b); }
  }
  // b and c are gone; a must still be readable and intact w.r.t. itself
  Snap sa2 = snap(a);
  same(sa2, a);
  VF_END();
}

// Two-step histories from richer states: a handle that was emptied WITHOUT
// releasing its storage (clear(false) / pop_back to empty) is shared, then both
// handles are mutated in turn through the MakeUnique discipline.  After every
// step the other handle observes exactly what it observed before.
static void step(SharedVec<int>& x, int v) {
  unsigned op = vf_nondet_u32() % 3;
  x.MakeUnique();
  if (op == 0) x.push_back(v);
  else if (op == 1) x.resize(vf_range(0, VF_N + 1), v);
  else if (x.size() > 0) x[0] = v;
}
extern "C" void h_sharedvec_two_steps() {
  SharedVec<int> a;
  fillsym(a);
  unsigned pre = vf_nondet_u32() % 3;
  if (pre == 1) a.clear(false);                 // empty, storage kept
  else if (pre == 2 && a.size() > 0) a.pop_back();
  SharedVec<int> b;
  b = a;  // share
  Snap sb = snap(b);
  step(a, vf_int());
  same(sb, b);
  Snap sa = snap(a);
  step(b, vf_int());
  same(sa, a);
  Snap sb2 = snap(b);
  step(a, vf_int());
  same(sb2, b);
  VF_END();
}

// Halfedges = three SharedVecs behind one interface.  NOTE: SharedVec's copy
// CONSTRUCTOR deep-copies; only copy ASSIGNMENT shares storage (this is how
// Impl::Transform produces shared halfedges), so the second handle is made by
// assignment.
extern "C" void h_halfedges() {
  Halfedges h;
  unsigned n = 3 * (vf_nondet_u32() % 3);
  h.resize(n);
  for (unsigned i = 0; i < 6; i++)
    if (i < n) h.Set(i, vf_int(), vf_int(), vf_int());
  Halfedges g;
  g = h;  // shares all three arrays
  if (n) {  // ... and this harness depends on it: check the sharing itself
    VF_ASSERT(CP(g.start_) == CP(h.start_) && CP(g.paired_) == CP(h.paired_) && CP(g.propVert_) == CP(h.propVert_));
  }
  int s[6], p[6], q[6];
  for (unsigned i = 0; i < 6; i++)
    if (i < n) { s[i] = g.Start(i); p[i] = g.Pair(i); q[i] = g.Prop(i); }
  unsigned op = vf_nondet_u32() % 9;
  h.MakeUnique();
  if (op == 0 && n) h.MakeInvalid(vf_nondet_u32() % n);
  else if (op == 1 && n) h.Set(vf_nondet_u32() % n, vf_int(), vf_int(), vf_int());
  else if (op == 2) h.push_back(vf_int(), vf_int(), vf_int());
  else if (op == 3) h.resize(vf_range(0, 6));
  else if (op == 4) h.clear();
  // the single-array setters (what FlipTris / ReindexFace use after MakeUnique)
  else if (op == 5 && n) h.SetStart(vf_nondet_u32() % n, vf_int());
  else if (op == 6 && n) h.SetPair(vf_nondet_u32() % n, vf_int());
  else if (op == 7 && n) h.SetProp(vf_nondet_u32() % n, vf_int());
  else if (op == 8 && n) h.SetEnd(vf_nondet_u32() % n, vf_int());
  VF_ASSERT(g.size() == n);
  for (unsigned i = 0; i < 6; i++)
    if (i < n) VF_ASSERT(g.Start(i) == s[i] && g.Pair(i) == p[i] && g.Prop(i) == q[i]);
  VF_END();
}

// C19: tolerance never drops below epsilon - the bookkeeping in
// CsgLeafNode::Compose (csg_tree.cpp), the disjoint-union fast path, which
// merges children that may carry a pending (not yet applied) transform.
// The meshes are empty: only the epsilon / tolerance / bounding-box arithmetic
// of the real function is under test; the call of SortGeometry (another TU) is
// redirected to a stub that checks the invariant on the combined Impl.
#include <atomic>
#include <memory>
#include <mutex>
#include <vector>
#include "vf_harness.h"
#define private public
#include "csg_tree.h"
#undef private
#include "csg_tree.cpp"
using namespace manifold;
#ifndef VF_BND
#define VF_BND 64
#endif
static double F() { return vf_finite(VF_BND); }

static int g_checked = 0;
extern "C" void vf_stub_SortGeometry(Manifold::Impl* self, void* ctx) {
  // the invariant every Impl handed on must satisfy (SetTolerance's
  // "reducing" branch and Simplify rely on it)
  VF_ASSERT(self->tolerance_ >= self->epsilon_);
  g_checked++;
#ifdef VF_WITNESS
  vf_witness();
#endif
  vf_cut();
}

static std::shared_ptr<CsgLeafNode> node(bool withTransform) {
  auto impl = std::make_shared<Manifold::Impl>();
  vec3 a(F(), F(), F()), b(F(), F(), F());
  impl->bBox_ = Box(a, b);  // Box(p1, p2) orders the corners itself
  impl->epsilon_ = F();
  impl->tolerance_ = F();
  // a valid operand: epsilon as SetEpsilon leaves it (>= kPrecision * scale),
  // tolerance not below it
  vf_assume(impl->epsilon_ >= kPrecision * impl->bBox_.Scale());
  vf_assume(impl->tolerance_ >= impl->epsilon_);
  mat3x4 t = la::identity;
  if (withTransform)
    for (int c = 0; c < 4; c++)
      for (int r = 0; r < 3; r++) t[c][r] = F();
  return std::make_shared<CsgLeafNode>(impl, t);
}

extern "C" void h_compose() {
  std::vector<std::shared_ptr<CsgLeafNode>> nodes;
  nodes.push_back(node(vf_bool()));
  nodes.push_back(node(vf_bool()));
  auto r = CsgLeafNode::Compose(nodes);
  VF_END();
}

// C19: tolerance never drops below epsilon - the bookkeeping in
// CsgLeafNode::Compose (csg_tree.cpp), the disjoint-union fast path, which
// merges children that may carry a pending (not yet applied) transform.
// The meshes are empty: only the epsilon / tolerance / bounding-box arithmetic
// of the real function is under test.
#include <atomic>
#include <memory>
#include <mutex>
#include <vector>
#include "vf_harness.h"
#define private public
#include "csg_tree.h"
#undef private
#include "csg_tree.cpp"
using namespace manifold;
#ifndef VF_BND
#define VF_BND 64
#endif
static double F() { return vf_finite(VF_BND); }

// Where the check sits: right after Compose has written epsilon_ / tolerance_ /
// bBox_ into the combined Impl it sizes that Impl's arrays; the first
// out-of-line call is Vec<int,true>::resize_nofill on combined.halfedge_
// (its first member).  That call is redirected here: the invariant is checked
// on the enclosing Impl and the path ends, so the copy machinery behind it
// (which does not touch epsilon_/tolerance_ again) is not executed.
extern "C" void vf_stub_resize_nofill(Vec<int, true>* self, unsigned long n) {
  const Manifold::Impl* combined = reinterpret_cast<const Manifold::Impl*>(
      reinterpret_cast<const unsigned char*>(self) - __builtin_offsetof(Manifold::Impl, halfedge_));
  // the invariant every Impl handed on must satisfy (SetTolerance's
  // "reducing" branch, Simplify and every later SetEpsilon floor rely on it)
  VF_ASSERT(combined->tolerance_ >= combined->epsilon_);
#ifdef VF_WITNESS
  vf_witness();
#endif
  vf_cut();
}

static std::shared_ptr<CsgLeafNode> node(bool withTransform) {
  auto impl = std::make_shared<Manifold::Impl>();
  vec3 a(F(), F(), F()), b(F(), F(), F());
  impl->bBox_ = Box(a, b);  // Box(p1, p2) orders the corners itself
  impl->epsilon_ = F();
  impl->tolerance_ = F();
  // a valid operand: epsilon as SetEpsilon leaves it (>= kPrecision * scale),
  // tolerance not below it
  vf_assume(impl->epsilon_ >= kPrecision * impl->bBox_.Scale());
  vf_assume(impl->tolerance_ >= impl->epsilon_);
  mat3x4 t = la::identity;
  if (withTransform) {  // pending axis-aligned scale (any sign, any magnitude) and translation
    for (int r = 0; r < 3; r++) {
      t[r][r] = F();
      t[3][r] = F();
    }
  }
  return std::make_shared<CsgLeafNode>(impl, t);
}

extern "C" void h_compose() {
  std::vector<std::shared_ptr<CsgLeafNode>> nodes;
  nodes.push_back(node(true));
  nodes.push_back(node(false));
  auto r = CsgLeafNode::Compose(nodes);
  VF_END();
}

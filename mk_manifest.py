#!/usr/bin/env python3
"""Regenerates MANIFEST.json from obligations.py (claimed) and not_applicable.json."""
import json, sys, os
sys.path.insert(0, os.path.dirname(os.path.abspath(__file__)))
from obligations import PROPERTIES
na = json.load(open('not_applicable.json'))
checks = []
CLAIMED = json.load(open('claimed.json'))
for pid in sorted(PROPERTIES):
    if pid not in CLAIMED: continue
    P = PROPERTIES[pid]
    checks.append({
        'property_id': pid,
        'quick_cmd': './check %s --tier quick' % pid,
        'thorough_cmd': './check %s --tier thorough' % pid,
        'evidence_file': 'evidence/%s.json' % pid,
        'replay_cmd_template': './check %s --replay {path}' % pid,
        'engine': 'ir2c-cbmc',
        'level_claimed': {'category': 'model_checking', 'text': P['level_text'], 'design_ref': P.get('design_ref', 'DESIGN.md section 4, ' + pid)},
        'level_note': P['level_note'],
        'technique': P.get('technique', 'bounded symbolic execution of the real C++ (clang-14 LLVM IR -> C via engine/ir2c.py) decided by cbmc 6.11 SAT back ends; counterexamples replayed natively under ASan/UBSan'),
    })
m = {
 'version': 1,
 'setup_cmd': 'true',
 'hooks': {'guard': 'MANIFOLD_VERIF', 'enable': 'harness TUs are compiled by clang++-14 with -DMANIFOLD_VERIF=1 directly from /repo/src and /repo/include (no library build is needed)',
           'baseline_off_cmd': 'cmake --build /repo/_build && ctest --test-dir /repo/_build -j8 --timeout 900',
           'source_commits': json.load(open('hooks.json'))['source_commits'], 'add_only': True},
 'engines': [{'name': 'ir2c-cbmc', 'path': 'engine/', 'serves_properties': sorted(CLAIMED),
              'kind_free_text': 'clang-14 -O1 LLVM IR of harness TUs that #include the real sources -> engine/ir2c.py (IR->C) -> cbmc 6.11 (minisat/cadical/kissat), witness twins for vacuity, native ASan/UBSan replay of counterexamples'}],
 'checks': checks,
 'not_applicable': [x for x in na if x['property_id'] not in CLAIMED],
 'notes': 'Every verdict is bounded: see evidence/<id>.json coverage.samples[*].bounds and DESIGN.md. Exit 2 = inconclusive (timeout, harness no longer builds, counterexample not reproduced natively); it never prints a VIOLATION line.',
}
json.dump(m, open('MANIFEST.json', 'w'), indent=1)
print('claimed:', [c['property_id'] for c in checks], 'n/a:', [x['property_id'] for x in m['not_applicable']])

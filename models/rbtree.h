/* Model of libstdc++'s out-of-line red-black tree primitives (tree.cc), used
 * by std::map / std::set.  Ordering-correct binary search tree WITHOUT
 * rebalancing: every operation the headers perform on the tree (lower_bound
 * walks, begin/end, ++/--) only relies on the BST order and on the header's
 * leftmost/rightmost/root links, which this model maintains exactly as
 * libstdc++ does.  Tree shape (and hence iteration COST) differs; iteration
 * ORDER does not. */
typedef struct struct_2estd_3a_3a_Rb_tree_node_base vf_rbn;
#define HAVE_f__ZSt29_Rb_tree_insert_and_rebalancebPSt18_Rb_tree_node_baseS0_RS_
void f__ZSt29_Rb_tree_insert_and_rebalancebPSt18_Rb_tree_node_baseS0_RS_(unsigned char insert_left, vf_rbn* x, vf_rbn* p, vf_rbn* header) {
  x->f1 = p; x->f2 = 0; x->f3 = 0; x->f0 = 1; /* black: only the header is red */
  if (insert_left) {
    p->f2 = x;
    if (p == header) { header->f1 = x; header->f3 = x; }
    else if (p == header->f2) header->f2 = x;
  } else {
    p->f3 = x;
    if (p == header->f3) header->f3 = x;
  }
}
#define HAVE_f__ZSt18_Rb_tree_incrementPSt18_Rb_tree_node_base
#define HAVE_f__ZSt18_Rb_tree_incrementPKSt18_Rb_tree_node_base
vf_rbn* f__ZSt18_Rb_tree_incrementPSt18_Rb_tree_node_base(vf_rbn* x) {
  if (x->f3 != 0) {
    x = x->f3;
    while (x->f2 != 0) x = x->f2;
  } else {
    vf_rbn* y = x->f1;
    while (x == y->f3) { x = y; y = y->f1; }
    if (x->f3 != y) x = y;
  }
  return x;
}
vf_rbn* f__ZSt18_Rb_tree_incrementPKSt18_Rb_tree_node_base(vf_rbn* x) { return f__ZSt18_Rb_tree_incrementPSt18_Rb_tree_node_base(x); }
#define HAVE_f__ZSt18_Rb_tree_decrementPSt18_Rb_tree_node_base
#define HAVE_f__ZSt18_Rb_tree_decrementPKSt18_Rb_tree_node_base
vf_rbn* f__ZSt18_Rb_tree_decrementPSt18_Rb_tree_node_base(vf_rbn* x) {
  /* header: color red and parent->parent == self */
  if (x->f0 == 0 && x->f1 != 0 && x->f1->f1 == x) return x->f3; /* end() -> rightmost */
  if (x->f2 != 0) {
    vf_rbn* y = x->f2;
    while (y->f3 != 0) y = y->f3;
    return y;
  } else {
    vf_rbn* y = x->f1;
    while (x == y->f2) { x = y; y = y->f1; }
    return y;
  }
}
vf_rbn* f__ZSt18_Rb_tree_decrementPKSt18_Rb_tree_node_base(vf_rbn* x) { return f__ZSt18_Rb_tree_decrementPSt18_Rb_tree_node_base(x); }
/* erase: libstdc++'s _Rb_tree_rebalance_for_erase without the recolouring /
 * rotations (unlink z, splice its in-order successor if it has two children,
 * maintain root / leftmost / rightmost of the header); returns the node to
 * destroy. */
#define HAVE_f__ZSt28_Rb_tree_rebalance_for_erasePSt18_Rb_tree_node_baseRS_
vf_rbn* f__ZSt28_Rb_tree_rebalance_for_erasePSt18_Rb_tree_node_baseRS_(vf_rbn* z, vf_rbn* header) {
  vf_rbn* y = z; vf_rbn* x = 0;
  if (y->f2 == 0) x = y->f3;
  else if (y->f3 == 0) x = y->f2;
  else { y = y->f3; while (y->f2 != 0) y = y->f2; x = y->f3; }
  if (y != z) {
    z->f2->f1 = y; y->f2 = z->f2;
    if (y != z->f3) {
      if (x) x->f1 = y->f1;
      y->f1->f2 = x;
      y->f3 = z->f3; z->f3->f1 = y;
    }
    if (header->f1 == z) header->f1 = y;
    else if (z->f1->f2 == z) z->f1->f2 = y;
    else z->f1->f3 = y;
    y->f1 = z->f1;
    y = z;
  } else {
    if (x) x->f1 = y->f1;
    if (header->f1 == z) header->f1 = x;
    else if (z->f1->f2 == z) z->f1->f2 = x;
    else z->f1->f3 = x;
    if (header->f2 == z) {
      if (z->f3 == 0) header->f2 = z->f1;
      else { vf_rbn* m = x; while (m->f2 != 0) m = m->f2; header->f2 = m; }
    }
    if (header->f3 == z) {
      if (z->f2 == 0) header->f3 = z->f1;
      else { vf_rbn* m = x; while (m->f3 != 0) m = m->f3; header->f3 = m; }
    }
  }
  return y;
}

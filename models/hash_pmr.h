/* libstdc++ out-of-line pieces of std::unordered_map and std::pmr, used only
 * by the concrete-pipeline obligations.
 * _Prime_rehash_policy: the contract is "some bucket count >= the request";
 *   modelled deterministically (next power of two, at least 16), rehash when
 *   the load factor 1.0 would be exceeded.  Bucket counts do not affect what a
 *   map contains, only iteration order of unordered containers.
 * pmr::unsynchronized_pool_resource: constructed/destroyed as an inert object;
 *   ALLOCATING from it is not modelled (asserted unreachable by the default
 *   treatment of un-modelled externals). */
typedef struct struct_2estd_3a_3a__detail_3a_3a_Prime_rehash_policy vf_prp;   /* { float max_load; size_t next_resize; } */
#define HAVE_f__ZNKSt8__detail20_Prime_rehash_policy11_M_next_bktEm
uint64_t f__ZNKSt8__detail20_Prime_rehash_policy11_M_next_bktEm(vf_prp* p, uint64_t n) {
  uint64_t b = 16; while (b < n) b *= 2; p->f1 = b; return b; }
#define HAVE_f__ZNKSt8__detail20_Prime_rehash_policy14_M_need_rehashEmmm
struct anon_Si8_i64E f__ZNKSt8__detail20_Prime_rehash_policy14_M_need_rehashEmmm(vf_prp* p, uint64_t n_bkt, uint64_t n_elt, uint64_t n_ins) {
  struct anon_Si8_i64E r; r.f0 = 0; r.f1 = 0;
  if (n_elt + n_ins > n_bkt) { uint64_t b = 16; while (b < n_elt + n_ins) b *= 2; r.f0 = 1; r.f1 = b; p->f1 = b; }
  return r; }
#define HAVE_f__ZNSt3pmr28unsynchronized_pool_resourceC2ERKNS_12pool_optionsEPNS_15memory_resourceE
void f__ZNSt3pmr28unsynchronized_pool_resourceC2ERKNS_12pool_optionsEPNS_15memory_resourceE(struct class_2estd_3a_3apmr_3a_3aunsynchronized_pool_resource* a0, struct struct_2estd_3a_3apmr_3a_3apool_options* a1, struct class_2estd_3a_3apmr_3a_3amemory_resource* a2) {}
#define HAVE_f__ZNSt3pmr28unsynchronized_pool_resourceD1Ev
void f__ZNSt3pmr28unsynchronized_pool_resourceD1Ev(struct class_2estd_3a_3apmr_3a_3aunsynchronized_pool_resource* a0) {}
#define HAVE_f__ZNSt3pmr20get_default_resourceEv
struct class_2estd_3a_3apmr_3a_3amemory_resource* f__ZNSt3pmr20get_default_resourceEv(void) { static char dummy[64]; return (struct class_2estd_3a_3apmr_3a_3amemory_resource*)dummy; }

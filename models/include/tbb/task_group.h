#include "vf_tbb.h"

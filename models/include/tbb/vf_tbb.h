// Protocol model of the oneTBB algorithms manifold uses (DESIGN.md 3.1).
// Used ONLY when a harness TU is compiled with -DMANIFOLD_PAR=1.  Every
// scheduling freedom TBB has for <=3 chunks is a nondeterministic choice:
// where the range is split, in which order chunks run, which body object
// handles which chunk, when split constructors run, how partial results are
// joined, which pre-scans happen.  "Correct for every choice" implies correct
// under real TBB for executions that split a range into <=3 chunks; larger
// chunk counts are outside the bound.
#pragma once
#include <cstddef>
#include <utility>
extern "C" unsigned vf_nondet_u32();
extern "C" unsigned char vf_nondet_u8();
extern "C" void vf_assume(bool);
extern "C" void vf_assert_at(bool, unsigned);
namespace tbb {
struct split {};
struct pre_scan_tag {
  static bool is_final_scan() { return false; }
  operator bool() const { return false; }
};
struct final_scan_tag {
  static bool is_final_scan() { return true; }
  operator bool() const { return true; }
};
struct auto_partitioner {};
struct simple_partitioner {};
struct static_partitioner {};
struct affinity_partitioner {};

template <typename T>
struct blocked_range {
  using const_iterator = T;
  T b_, e_;
  size_t g_;
  blocked_range(T b, T e, size_t g = 1) : b_(b), e_(e), g_(g) {}
  T begin() const { return b_; }
  T end() const { return e_; }
  size_t size() const { return size_t(e_ - b_); }
  size_t grainsize() const { return g_; }
  bool empty() const { return !(b_ < e_); }
};

// the "worker thread" executing the current chunk (for combinable / TLS)
inline unsigned& vf_tid() {
  static unsigned t = 0;
  return t;
}
constexpr unsigned VF_TBB_THREADS = 2;

namespace this_task_arena {
template <typename F>
auto isolate(F&& f) -> decltype(f()) {
  return f();
}
inline int max_concurrency() {
  unsigned c = vf_nondet_u32();
  vf_assume(c >= 1 && c <= 16);
  return (int)c;
}
}  // namespace this_task_arena

// ---- chunking: k in 1..3 non-empty consecutive chunks of [b,e)
template <typename R>
struct vf_chunks {
  int k;
  size_t cut[4];
  R get(const R& r, int i) const {
    return R(r.begin() + cut[i], r.begin() + cut[i + 1], r.grainsize());
  }
};
template <typename R>
inline vf_chunks<R> vf_split3(const R& r) {
  vf_chunks<R> c;
  size_t n = r.size();
  size_t m1 = vf_nondet_u32(), m2 = vf_nondet_u32();
  vf_assume(m1 <= m2 && m2 <= n);
#if defined(VF_TBB_MAX_CHUNKS) && VF_TBB_MAX_CHUNKS == 2
  vf_assume(m2 == n);  // a stated bound of the obligation: at most two chunks
#endif
  // drop empty chunks
  c.k = 0;
  c.cut[0] = 0;
  if (m1 > 0) c.cut[++c.k] = m1;
  if (m2 > m1) c.cut[++c.k] = m2;
  if (n > m2) c.cut[++c.k] = n;
  return c;
}

// ---- parallel_for: chunks in any order, each on an arbitrary worker
template <typename R, typename F>
void parallel_for(const R& r, const F& f) {
  if (r.empty()) return;
  vf_chunks<R> c = vf_split3(r);
  unsigned perm = vf_nondet_u32() % 6;
  static const unsigned char P[6][3] = {{0, 1, 2}, {0, 2, 1}, {1, 0, 2},
                                        {1, 2, 0}, {2, 0, 1}, {2, 1, 0}};
  for (int j = 0; j < 3; j++) {
    int i = P[perm][j];
    if (i < c.k) {
      vf_tid() = vf_nondet_u8() % VF_TBB_THREADS;
      f(c.get(r, i));
    }
  }
  vf_tid() = 0;
}
template <typename R, typename F, typename Part>
void parallel_for(const R& r, const F& f, Part&&) {
  parallel_for(r, f);
}

// Either order.  The two orders are two copies of both calls, so inside a
// recursion the cost is 4^depth; order nondeterminism is therefore applied to
// the outermost VF_TBB_INVOKE_ND nesting levels only (a stated bound) and
// deeper levels run f1;f2.
#ifndef VF_TBB_INVOKE_ND
#define VF_TBB_INVOKE_ND 1
#endif
inline int& vf_invoke_depth() {
  static int d = 0;
  return d;
}
template <typename F1, typename F2>
void parallel_invoke(const F1& f1, const F2& f2) {
  int& d = vf_invoke_depth();
  if (d < VF_TBB_INVOKE_ND && (vf_nondet_u8() & 1)) {
    d++;
    f2();
    f1();
    d--;
  } else {
    d++;
    f1();
    f2();
    d--;
  }
}

// ---- parallel_reduce, imperative form.  Bodies: b0 = the caller's body.
// A chunk is either continued by the body of its left neighbour or "stolen":
// handled by a body split off an ancestor body at a nondeterministic moment
// (before or after that ancestor did its own work).  Joins follow the split
// tree; independent calls run in either order.
template <typename R, typename Body>
void parallel_reduce(const R& r, Body& b0) {
  if (r.empty()) return;
  vf_chunks<R> c = vf_split3(r);
  if (c.k == 1) {
    b0(c.get(r, 0));
    return;
  }
  bool early = vf_nondet_u8() & 1;  // split constructor runs before the parent body works
  bool rightFirst = vf_nondet_u8() & 1;
  if (c.k == 2) {
    if (vf_nondet_u8() & 1) {  // not stolen
      b0(c.get(r, 0));
      b0(c.get(r, 1));
      return;
    }
    if (early) {
      Body b1(b0, split());
      if (rightFirst) { b1(c.get(r, 1)); b0(c.get(r, 0)); }
      else { b0(c.get(r, 0)); b1(c.get(r, 1)); }
      b0.join(b1);
    } else {
      b0(c.get(r, 0));
      Body b1(b0, split());
      b1(c.get(r, 1));
      b0.join(b1);
    }
    return;
  }
  unsigned mode = vf_nondet_u32() % 5;
  switch (mode) {
    case 0:  // nothing stolen
      b0(c.get(r, 0)); b0(c.get(r, 1)); b0(c.get(r, 2));
      break;
    case 1: {  // c2 stolen from b0
      if (early) {
        Body b2(b0, split());
        if (rightFirst) { b2(c.get(r, 2)); b0(c.get(r, 0)); b0(c.get(r, 1)); }
        else { b0(c.get(r, 0)); b2(c.get(r, 2)); b0(c.get(r, 1)); }
        b0.join(b2);
      } else {
        b0(c.get(r, 0));
        Body b2(b0, split());
        if (rightFirst) { b2(c.get(r, 2)); b0(c.get(r, 1)); }
        else { b0(c.get(r, 1)); b2(c.get(r, 2)); }
        b0.join(b2);
      }
      break;
    }
    case 2: {  // right subtree {c1,c2} stolen as a whole
      if (early) {
        Body b1(b0, split());
        if (rightFirst) { b1(c.get(r, 1)); b1(c.get(r, 2)); b0(c.get(r, 0)); }
        else { b1(c.get(r, 1)); b0(c.get(r, 0)); b1(c.get(r, 2)); }
        b0.join(b1);
      } else {
        b0(c.get(r, 0));
        Body b1(b0, split());
        b1(c.get(r, 1)); b1(c.get(r, 2));
        b0.join(b1);
      }
      break;
    }
    case 3: {  // tree ((c0,c1),c2): both stolen from b0
      Body b2(b0, split());
      if (early) {
        Body b1(b0, split());
        if (rightFirst) { b2(c.get(r, 2)); b1(c.get(r, 1)); b0(c.get(r, 0)); }
        else { b0(c.get(r, 0)); b1(c.get(r, 1)); b2(c.get(r, 2)); }
        b0.join(b1);
      } else {
        b0(c.get(r, 0));
        Body b1(b0, split());
        if (rightFirst) { b2(c.get(r, 2)); b1(c.get(r, 1)); }
        else { b1(c.get(r, 1)); b2(c.get(r, 2)); }
        b0.join(b1);
      }
      b0.join(b2);
      break;
    }
    default: {  // tree (c0,(c1,c2)): bR from b0, b2 from bR
      Body bR(b0, split());
      if (early) {
        Body b2(bR, split());
        if (rightFirst) { b2(c.get(r, 2)); bR(c.get(r, 1)); b0(c.get(r, 0)); }
        else { b0(c.get(r, 0)); bR(c.get(r, 1)); b2(c.get(r, 2)); }
        bR.join(b2);
      } else {
        bR(c.get(r, 1));
        Body b2(bR, split());
        if (rightFirst) { b2(c.get(r, 2)); b0(c.get(r, 0)); }
        else { b0(c.get(r, 0)); b2(c.get(r, 2)); }
        bR.join(b2);
      }
      b0.join(bR);
      break;
    }
  }
}

// functional form = TBB's lambda_reduce_body over the imperative protocol
template <typename R, typename T, typename F, typename J>
struct vf_lambda_reduce_body {
  const T& id;
  const F& f;
  const J& j;
  T value;
  vf_lambda_reduce_body(const T& id, const F& f, const J& j) : id(id), f(f), j(j), value(id) {}
  vf_lambda_reduce_body(vf_lambda_reduce_body& o, split) : id(o.id), f(o.f), j(o.j), value(o.id) {}
  void operator()(const R& r) { value = f(r, value); }
  void join(vf_lambda_reduce_body& rhs) { value = j(value, rhs.value); }
};
template <typename R, typename T, typename F, typename J>
T parallel_reduce(const R& r, const T& id, const F& f, const J& j) {
  vf_lambda_reduce_body<R, T, F, J> body(id, f, j);
  parallel_reduce(r, body);
  return body.value;
}

// ---- parallel_scan, imperative form (see DESIGN.md 3.1 for the protocol)
template <typename R, typename Body>
void parallel_scan(const R& r, Body& body) {
  if (r.empty()) return;
  vf_chunks<R> c = vf_split3(r);
  final_scan_tag fin;
  pre_scan_tag pre;
  if (c.k == 1) {
    if (vf_nondet_u8() & 1) {  // a useless pre-scan of the whole range by a split body is legal
      Body b1(body, split());
      b1(c.get(r, 0), pre);
    }
    body(c.get(r, 0), fin);
    return;
  }
  bool preFirst = vf_nondet_u8() & 1;
  if (c.k == 2) {
    unsigned mode = vf_nondet_u32() % 2;
    if (mode == 0) {
      body(c.get(r, 0), fin);
      body(c.get(r, 1), fin);
    } else {  // right chunk pre-scanned by a split body
      Body b1(body, split());
      if (preFirst) { b1(c.get(r, 1), pre); body(c.get(r, 0), fin); }
      else { body(c.get(r, 0), fin); b1(c.get(r, 1), pre); }
      b1.reverse_join(body);  // b1 now summarises [0, end of c1)
      body(c.get(r, 1), fin);
      body.assign(b1);
    }
    return;
  }
  unsigned mode = vf_nondet_u32() % 4;
  switch (mode) {
    case 0:
      body(c.get(r, 0), fin); body(c.get(r, 1), fin); body(c.get(r, 2), fin);
      break;
    case 1: {  // {c1,c2} pre-scanned by one split body
      Body b1(body, split());
      if (preFirst) { b1(c.get(r, 1), pre); b1(c.get(r, 2), pre); body(c.get(r, 0), fin); }
      else { body(c.get(r, 0), fin); b1(c.get(r, 1), pre); b1(c.get(r, 2), pre); }
      b1.reverse_join(body);
      body(c.get(r, 1), fin); body(c.get(r, 2), fin);
      body.assign(b1);
      break;
    }
    case 2: {  // c1 pre-scanned; its summary feeds the final scan of c2
      Body b1(body, split());
      if (preFirst) { b1(c.get(r, 1), pre); body(c.get(r, 0), fin); }
      else { body(c.get(r, 0), fin); b1(c.get(r, 1), pre); }
      b1.reverse_join(body);  // b1 = prefix through c1
      if (vf_nondet_u8() & 1) { body(c.get(r, 1), fin); b1(c.get(r, 2), fin); }
      else { b1(c.get(r, 2), fin); body(c.get(r, 1), fin); }
      body.assign(b1);
      break;
    }
    default: {  // c1 and c2 pre-scanned by two split bodies
      Body b1(body, split());
      Body b2(b1, split());
      if (preFirst) { b2(c.get(r, 2), pre); b1(c.get(r, 1), pre); body(c.get(r, 0), fin); }
      else { body(c.get(r, 0), fin); b1(c.get(r, 1), pre); b2(c.get(r, 2), pre); }
      b1.reverse_join(body);  // prefix through c1
      b2.reverse_join(b1);    // prefix through c2 (total)
      if (vf_nondet_u8() & 1) { body(c.get(r, 1), fin); b1(c.get(r, 2), fin); }
      else { b1(c.get(r, 2), fin); body(c.get(r, 1), fin); }
      body.assign(b2);
      break;
    }
  }
}
// functional form = TBB's lambda_scan_body
template <typename R, typename T, typename S, typename J>
struct vf_lambda_scan_body {
  T sum;
  const T& id;
  const S& scan;
  const J& rj;
  vf_lambda_scan_body(const T& id, const S& s, const J& j) : sum(id), id(id), scan(s), rj(j) {}
  vf_lambda_scan_body(vf_lambda_scan_body& b, split) : sum(b.id), id(b.id), scan(b.scan), rj(b.rj) {}
  template <typename Tag>
  void operator()(const R& r, Tag tag) { sum = scan(r, sum, tag); }
  void reverse_join(vf_lambda_scan_body& a) { sum = rj(a.sum, sum); }
  void assign(vf_lambda_scan_body& b) { sum = b.sum; }
};
template <typename R, typename T, typename S, typename J>
T parallel_scan(const R& r, const T& id, const S& s, const J& j) {
  vf_lambda_scan_body<R, T, S, J> body(id, s, j);
  parallel_scan(r, body);
  return body.sum;
}

// ---- combinable: one lazily-initialised instance per worker
template <typename T>
struct combinable {
  T slot[VF_TBB_THREADS];
  bool used[VF_TBB_THREADS];
  combinable() : slot() {
    for (unsigned i = 0; i < VF_TBB_THREADS; i++) used[i] = false;
  }
  template <typename F>
  explicit combinable(F finit) {
    for (unsigned i = 0; i < VF_TBB_THREADS; i++) {
      slot[i] = finit();
      used[i] = false;
    }
  }
  T& local() {
    unsigned t = vf_tid();
    used[t] = true;
    return slot[t];
  }
  T& local(bool& exists) {
    unsigned t = vf_tid();
    exists = used[t];
    used[t] = true;
    return slot[t];
  }
  template <typename F>
  void combine_each(F f) {
    if (vf_nondet_u8() & 1) {
      for (unsigned i = 0; i < VF_TBB_THREADS; i++)
        if (used[i]) f(slot[i]);
    } else {
      for (unsigned i = VF_TBB_THREADS; i-- > 0;)
        if (used[i]) f(slot[i]);
    }
  }
  void clear() {
    for (unsigned i = 0; i < VF_TBB_THREADS; i++) used[i] = false;
  }
};
}  // namespace tbb

/* libstdc++ / libsupc++ externals that need the module's struct types.
 * operator new(size_t, nothrow): allocation failure is out of scope, so it
 * behaves like the throwing form and never returns null. */
#define HAVE_f__ZnwmRKSt9nothrow_t
unsigned char* f__ZnwmRKSt9nothrow_t(uint64_t n, struct struct_2estd_3a_3anothrow_t* t) { return vf_new(n); }

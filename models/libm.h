/* libm externals by their C17 / IEEE-754 contracts.
 * remquo(x, y, &q): r = x - n*y EXACTLY, n = x/y rounded to nearest (ties to
 * even), |r| <= |y|/2, q carries the sign of x/y and (at least) the low three
 * bits of |n|.  Modelled for finite x and the constant divisors the repo uses
 * (90 degrees, pi/2): n is an arbitrary integer with |n| <= 2^31 that
 * satisfies the exactness equation, checked in double arithmetic (for
 * |n*y| < 2^53 the product n*y is exact when y has few significant bits, which
 * holds for y = 90; for y = pi/2 the contract is assumed, not re-derived). */
#define HAVE_f_remquo
real_t f_remquo(real_t x, real_t y, uint32_t* quo) {
  int32_t n = (int32_t)vf_nondet_u32();
  real_t r = vf_nondet_f64();
  __CPROVER_assume(y == y && x == x && y != 0.0);
  real_t ay = y < 0 ? -y : y;
  __CPROVER_assume(r >= -ay / 2 && r <= ay / 2);
  __CPROVER_assume(n > -1000000000 && n < 1000000000);
  __CPROVER_assume((real_t)n * y + r == x);          /* exact remainder */
  /* the remainder of two integer-valued doubles is integer-valued (then the line above is exact:
   * all quantities are integers below 2^53); without this a denormal r would satisfy it by rounding */
  if (x > -1e15 && x < 1e15 && y > -1e15 && y < 1e15 && x == (real_t)(int64_t)x && y == (real_t)(int64_t)y)
    __CPROVER_assume(r == (real_t)(int64_t)r);
  if (r == ay / 2 || r == -ay / 2) __CPROVER_assume((n & 1) == 0); /* ties to even */
  uint32_t mag = (uint32_t)(n < 0 ? -n : n) & 7u;
  *quo = (n < 0) ? (uint32_t)(-(int32_t)mag) : mag;
  return r;
}

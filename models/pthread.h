/* pthread mutex, sequential model: the harnesses that include it run one
 * thread, so lock/unlock only have to pair up.  A second lock of a held
 * (non-recursive) mutex or an unlock of a free one is reported - in the real
 * program that is a self-deadlock / undefined behaviour. The state lives in
 * the first byte of the (otherwise unused) pthread_mutex_t. */
#define HAVE_f_pthread_mutex_lock
#define HAVE_f_pthread_mutex_unlock
uint32_t f_pthread_mutex_lock(struct union_2epthread_mutex_t* m) {
  unsigned char* s = (unsigned char*)m;
  __CPROVER_assert(*s == 0, "std::mutex locked twice by the same thread (self-deadlock)");
  *s = 1;
  return 0;
}
uint32_t f_pthread_mutex_unlock(struct union_2epthread_mutex_t* m) {
  unsigned char* s = (unsigned char*)m;
  __CPROVER_assert(*s == 1, "std::mutex unlocked while not held");
  *s = 0;
  return 0;
}

// Demonstration (public API only): Manifold(MeshGL64) drops degenerate input
// triangles (a repeated vertex index) but kept halfedgeTangent indexed by INPUT
// triangle, so every tangent after the dropped triangle ended up on the wrong
// halfedge (status NoError).
//   g++ -std=c++17 -O1 -I/repo/include c09_tangents_degenerate_demo.cpp -o demo \
//       -L/repo/_build/src -lmanifold -Wl,-rpath,/repo/_build/src && ./demo
#include <cstdio>
#include "manifold/manifold.h"
using namespace manifold;
int main() {
  // a tetrahedron preceded by one degenerate triangle, tangents tagged in w
  MeshGL64 gl;
  gl.numProp = 3;
  gl.vertProperties = {0, 0, 0, 1, 0, 0, 0, 1, 0, 0, 0, 1};
  gl.triVerts = {0, 0, 1, 0, 1, 3, 0, 2, 1, 0, 3, 2, 1, 2, 3};
  for (size_t h = 0; h < gl.triVerts.size(); h++)
    gl.halfedgeTangent.insert(gl.halfedgeTangent.end(), {0.0, 0.0, 0.0, (double)(100 + h)});
  Manifold m(gl);
  printf("status %d, %zu triangles\n", (int)m.Status(), m.NumTri());
  if (m.Status() != Manifold::Error::NoError) { printf("PASS (rejected with an error)\n"); return 0; }
  MeshGL64 out = m.GetMeshGL64();
  int bad = 0;
  for (size_t t = 0; t < out.NumTri(); t++)
    for (int i = 0; i < 3; i++) {
      const auto a = out.triVerts[3 * t + i], b = out.triVerts[3 * t + (i + 1) % 3];
      const double w = out.halfedgeTangent.empty() ? -1 : out.halfedgeTangent[4 * (3 * t + i) + 3];
      for (size_t h = 3; h < gl.triVerts.size(); h++) {  // the input halfedge with the same end points
        const size_t tt = h / 3, ii = h % 3;
        const auto ia = gl.triVerts[h], ib = gl.triVerts[3 * tt + (ii + 1) % 3];
        bool same = true;
        for (int k = 0; k < 3; k++)
          if (out.vertProperties[3 * a + k] != gl.vertProperties[3 * ia + k] ||
              out.vertProperties[3 * b + k] != gl.vertProperties[3 * ib + k]) same = false;
        if (same && w != 100 + h) { bad++; printf("  halfedge %zu: expected tangent tag %zu, got %g\n", 3 * t + i, 100 + h, w); }
      }
    }
  printf(bad ? "FAIL: tangents are on the wrong halfedges\n" : "PASS\n");
  return bad ? 1 : 0;
}

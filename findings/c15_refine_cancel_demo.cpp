// Demonstration against the real library: Cancel() becoming visible inside the
// trailing SortGeometry(ctx) of Impl::Refine.  The cancel is injected with gdb
// exactly when SortGeometry is entered from Refine (see c15_refine_cancel_demo.gdb):
//   g++ -std=c++17 -O0 -g -I/repo/include c15_refine_cancel_demo.cpp -o demo -L/repo/_build/src -lmanifold -Wl,-rpath,/repo/_build/src
//   gdb -q -batch -x c15_refine_cancel_demo.gdb ./demo
// Property C15: the call returns the complete result or an empty Manifold with
// Error::Cancelled.  Before the fix: status NoError (0) with a half-sorted mesh.
#include <cstdio>
#include "manifold/manifold.h"
using namespace manifold;
int main() {
  Manifold s = Manifold::Sphere(1.0, 32);
  const size_t full = s.Refine(2).NumTri();
  ExecutionContext ctx;
  Manifold r = s.WithContext(ctx).Refine(2);
  const int st = (int)r.Status();
  printf("cancelled=%d status=%d NumTri=%zu (uncancelled result has %zu)\n", (int)ctx.Cancelled(), st, r.NumTri(), full);
  if (ctx.Cancelled() && st != (int)Manifold::Error::Cancelled) { printf("FAIL: cancellation was observed but the result is not Cancelled\n"); return 1; }
  printf("PASS\n");
  return 0;
}

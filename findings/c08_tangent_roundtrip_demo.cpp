// Demonstration for C08: export + re-import of a smoothed multi-run mesh must
// keep every halfedge tangent with its triangle.
#include <cstdio>
#include <cmath>
#include "manifold/manifold.h"
using namespace manifold;
int main() {
  Manifold a = Manifold::Cube(vec3(1.0));
  Manifold b = Manifold::Cube(vec3(1.0)).Translate(vec3(0.5, 0.5, 0.5));
  Manifold c = (Manifold::Sphere(1.0, 12) + Manifold::Sphere(1.0, 12).Translate(vec3(0.7, 0.3, 0.2))).SmoothOut();
  MeshGL64 m = c.GetMeshGL64();
  printf("runs=%zu tris=%zu tangents=%zu\n", m.runOriginalID.size(), m.NumTri(), m.halfedgeTangent.size() / 4);
  { int bad=0; for (double v : m.halfedgeTangent) if (!std::isfinite(v)) bad++; printf("nonfinite tangents=%d\n", bad); int badt=0; for(double v: m.runTransform) if(!std::isfinite(v)) badt++; printf("nonfinite transform=%d\n",badt);}
  Manifold d(m);
  printf("import status=%d numTri=%zu\n", (int)d.Status(), d.NumTri());
  Manifold r0 = c.Refine(3), r1 = d.Refine(3);
  printf("status direct=%d roundtrip=%d  volume direct=%.9g roundtrip=%.9g\n", (int)r0.Status(), (int)r1.Status(), r0.Volume(), r1.Volume());
  bool ok = r1.Status() == Manifold::Error::NoError && std::fabs(r0.Volume() - r1.Volume()) < 1e-6 * std::fabs(r0.Volume());
  printf(ok ? "PASS\n" : "FAIL\n");
  return ok ? 0 : 1;
}

// Demonstration (public API only): a disjoint union (CsgLeafNode::Compose) with a child that carries a
// pending enlarging transform handed on tolerance < epsilon; SetTolerance then reported less than epsilon.
//   g++ -std=c++17 -O1 -I/repo/include c19_compose_tolerance_demo.cpp -o demo -L/repo/_build/src -lmanifold \
//       -Wl,-rpath,/repo/_build/src && ./demo      (FAIL before the fix, PASS after)
#include <cstdio>
#include "manifold/manifold.h"
using namespace manifold;
int main() {
  Manifold a = Manifold::Cube(vec3(1.0));
  Manifold b = Manifold::Cube(vec3(1.0)).Translate(vec3(5, 0, 0)).Scale(vec3(100.0));  // pending transform
  Manifold c = a + b;                      // disjoint -> CsgLeafNode::Compose
  printf("a: eps %g tol %g\n", a.GetEpsilon(), a.GetTolerance());
  Manifold b2 = Manifold::Cube(vec3(1.0)).Translate(vec3(5, 0, 0)).Scale(vec3(100.0));
  printf("b (transform applied alone): eps %g tol %g\n", b2.GetEpsilon(), b2.GetTolerance());
  printf("c = a + b: status %d eps %g tol %g\n", (int)c.Status(), c.GetEpsilon(), c.GetTolerance());
  int bad = 0;
  if (c.GetTolerance() < c.GetEpsilon()) { printf("FAIL: tolerance < epsilon after Compose\n"); bad = 1; }
  Manifold d = c.SetTolerance(1e-11);
  printf("c.SetTolerance(1e-11): reports tol %g, eps %g (property: max(t, epsilon))\n", d.GetTolerance(), d.GetEpsilon());
  if (d.GetTolerance() < d.GetEpsilon()) { printf("FAIL: SetTolerance reports less than epsilon\n"); bad = 1; }
  if (!bad) printf("PASS\n");
  return bad;
}

set pagination off
start
# Impl::SortGeometry(ExecutionContext::Impl* ctx): break on the first instruction,
# where the second argument is still in $rsi; ExecutionContext::Impl::cancel is
# the std::atomic<bool> after four std::atomic<int> (offset 16)
break *'manifold::Manifold::Impl::SortGeometry(manifold::ExecutionContext::Impl*)'
commands
  silent
  if $rsi != 0
    set {char}($rsi + 16) = 1
    printf "gdb: Cancel() injected on entry to SortGeometry(ctx=%p)\n", $rsi
  end
  continue
end
continue

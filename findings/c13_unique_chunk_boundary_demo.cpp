// Demonstration (real oneTBB, unmodified library header): manifold::unique(Par)
// keeps a duplicate when a run of equal values straddles one of unique()'s
// internal 65536-element chunks, so it differs from std::unique.
//   g++ -std=c++17 -O1 -DMANIFOLD_PAR=1 -I/repo/src -I/repo/include \
//       c13_unique_chunk_boundary_demo.cpp -ltbb -o demo && ./demo
#include <algorithm>
#include <cstdio>
#include <vector>
#include "parallel.h"
int main() {
  const size_t n = 65536 + 10;
  std::vector<int> a(n);
  for (size_t i = 0; i < n; i++) a[i] = (int)i;  // all distinct ...
  a[65536] = a[65535];                           // ... except one pair across the chunk boundary
  std::vector<int> want = a;
  want.erase(std::unique(want.begin(), want.end()), want.end());
  std::vector<int> got = a;
  got.erase(manifold::unique(manifold::ExecutionPolicy::Par, got.begin(), got.end()), got.end());
  printf("std::unique keeps %zu, manifold::unique(Par) keeps %zu\n", want.size(), got.size());
  if (got != want) { printf("FAIL: results differ\n"); return 1; }
  printf("PASS\n");
  return 0;
}

# Obligation tables: one entry per solver query family.  See DESIGN.md.
PROPERTIES = {}

PROPERTIES['C14'] = {
  'level_text': 'Bounded model checking of the real collider code: for every sorted Morton array and every finite box set at N<=3..4 leaves the BVH build and traversal report exactly the overlapping leaves. Right level because the defects here are index/tie-break shapes (equal codes, degenerate boxes) that a solver enumerates symbolically and tests only sample.',
  'level_note': 'Bounds: N<=4 leaves (quick: tree N=4, end-to-end N=3). Sequential policy only (parallel scheduling of for_each_n is covered under C13). Larger trees, NaN boxes, Collider::Transform are outside this check. Trusted: clang IR, ir2c translation, cbmc.',
  'assumptions': ['Morton codes are sorted (every caller sorts leaves by Morton code before building the Collider)',
                  'box coordinates are finite doubles with |x| <= 1e100 (NaN/inf boxes are outside the claim)'],
  'obligations': [
    dict(name='radix_tree_n4', harness='c14_collider.cpp', entry='h_radix', defs={'VF_N': 4},
         unwind={'default': 12}, backends=['minisat'], timeout=600, tiers=['quick', 'thorough'],
         claim='CreateRadixTree on every sorted array of 4 32-bit Morton codes (incl. duplicates): every non-root node has one internal parent, children point back, every leaf reaches the root, node i covers a contiguous leaf range containing i and its children split it; no clz(0), no out-of-range index',
         bounds='N=4 leaves, all 2^128 code arrays subject to sortedness',
         targets=['collider_internal::CreateRadixTree::{operator(),RangeEnd,FindSplit,PrefixLength}']),
    dict(name='e2e_box_n3', harness='c14_collider.cpp', entry='h_e2e_box', defs={'VF_N': 3},
         unwind={'default': 8}, backends=['minisat','kissat'], timeout=900, tiers=['quick', 'thorough'],
         claim='Collider(leafBB, leafMorton) followed by Collisions(one Box query): the recorder is called exactly once for leaf i iff the closed-interval overlap test (independent oracle in the harness) holds, never for another index; root box contains every leaf box',
         bounds='N=3 leaves, all finite doubles |x|<=1e100 for every box coordinate (min<=max NOT assumed), all sorted Morton arrays',
         targets=['Collider::Collider', 'Collider::UpdateBoxes', 'collider_internal::BuildInternalBoxes', 'collider_internal::FindCollision', 'Box::Union', 'Box::DoesOverlap(Box)', 'for_each_n(Seq)', 'AtomicAdd']),
    dict(name='e2e_point_n3', harness='c14_collider.cpp', entry='h_e2e_point', defs={'VF_N': 3},
         unwind={'default': 8}, backends=['minisat','kissat'], timeout=900, tiers=['quick', 'thorough'],
         claim='same with a vec3 query: recorded iff the point projects into the XY extent of the leaf box (closed)',
         bounds='N=3 leaves, all finite doubles', targets=['collider_internal::FindCollision<vec3 query>', 'Box::DoesOverlap(vec3)']),
  ],
}

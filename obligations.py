import os
# Obligation tables: one entry per solver query family.  See DESIGN.md.
PROPERTIES = {}

def _flat(xs):
    out = []
    for x in xs:
        if isinstance(x, list): out += x
        else: out.append(x)
    return out

PROPERTIES['C14'] = {
  'level_text': 'Bounded model checking of the real collider code: for every sorted Morton array and every finite box set at N<=3..4 leaves the BVH build and traversal report exactly the overlapping leaves. Right level because the defects here are index/tie-break shapes (equal codes, degenerate boxes) that a solver enumerates symbolically and tests only sample.',
  'level_note': 'Bounds: N<=4 leaves (quick: tree N=4, end-to-end N=3). Sequential policy only (parallel scheduling of for_each_n is covered under C13). Larger trees, NaN boxes, Collider::Transform are outside this check. Trusted: clang IR, ir2c translation, cbmc.',
  'assumptions': ['Morton codes are sorted (every caller sorts leaves by Morton code before building the Collider)',
                  'box coordinates are finite doubles with |x| <= 1e100 (NaN/inf boxes are outside the claim)'],
  'obligations': [
    dict(name='radix_tree_n4', harness='c14_collider.cpp', entry='h_radix', defs={'VF_N': 4},
         unwind={'default': 12}, backends=['minisat'], timeout=600, tiers=['quick', 'thorough'],
         claim='CreateRadixTree on every sorted array of 4 32-bit Morton codes (incl. duplicates): every non-root node has one internal parent, children point back, every leaf reaches the root, node i covers a contiguous leaf range containing i and its children split it; no clz(0), no out-of-range index',
         bounds='N=4 leaves, all 2^128 code arrays subject to sortedness',
         targets=['collider_internal::CreateRadixTree::{operator(),RangeEnd,FindSplit,PrefixLength}']),
    dict(name='e2e_box_n3', harness='c14_collider.cpp', entry='h_e2e_box', defs={'VF_N': 3},
         unwind={'default': 8}, backends=['minisat','kissat'], timeout=2400, tiers=['quick', 'thorough'],
         claim='Collider(leafBB, leafMorton) followed by Collisions(one Box query): the recorder is called exactly once for leaf i iff the closed-interval overlap test (independent oracle in the harness) holds, never for another index; root box contains every leaf box',
         bounds='N=3 leaves, all finite doubles |x|<=1e100 for every box coordinate (min<=max NOT assumed), all sorted Morton arrays',
         targets=['Collider::Collider', 'Collider::UpdateBoxes', 'collider_internal::BuildInternalBoxes', 'collider_internal::FindCollision', 'Box::Union', 'Box::DoesOverlap(Box)', 'for_each_n(Seq)', 'AtomicAdd']),
  ] + [
    dict(name='refit_shape%d' % k, harness='c14_collider.cpp', entry='h_refit', defs={'VF_N': 4, 'VF_SHAPE': k},
         unwind={'default': 9}, backends=['minisat'], timeout=900, tiers=['quick', 'thorough'] if k in (0, 1, 4) else ['thorough'],
         claim='UpdateBoxes on an existing 4-leaf tree (Morton array #%d fixed, so the tree shape is constant; old boxes, new boxes - each leaf kept or replaced - and the query symbolic): every internal box is exactly the union of its children, leaf boxes are the new boxes, and a Box query reports exactly the overlapping leaves' % k,
         bounds='4 leaves, one concrete Morton array per query (distinct / all equal / two pairs / far apart / mixed), all finite doubles', targets=['Collider::UpdateBoxes', 'collider_internal::BuildInternalBoxes', 'AtomicAdd<int>', 'collider_internal::FindCollision'])
    for k in range(5)
  ] + [
    dict(name='e2e_update_n4', harness='c14_collider.cpp', entry='h_e2e_update', defs={'VF_N': 4},
         unwind={'default': 9}, backends=['minisat', 'kissat'], timeout=1500, mem_gb=20,
         tiers=['experimental'],
         claim='Collider built on one box set, then UpdateBoxes(new boxes), then a Box query: reports exactly the leaves whose NEW box overlaps (refit leaves no stale ancestor box)',
         bounds='N=4 leaves, all finite doubles for both box sets and the query, all sorted Morton arrays', targets=['Collider::UpdateBoxes', 'collider_internal::BuildInternalBoxes', 'collider_internal::FindCollision']),
    dict(name='e2e_point_n3', harness='c14_collider.cpp', entry='h_e2e_point', defs={'VF_N': 3},
         unwind={'default': 8}, backends=['minisat','kissat'], timeout=2400, tiers=['quick', 'thorough'],
         claim='same with a vec3 query: recorded iff the point projects into the XY extent of the leaf box (closed)',
         bounds='N=3 leaves, all finite doubles', targets=['collider_internal::FindCollision<vec3 query>', 'Box::DoesOverlap(vec3)']),
  ],
}

def _c13(name, entry, claim, n=4, thr=2, unwind=None, lens=None, **kw):
    if lens is not None:
        out = []
        for L in lens:
            o = _c13('%s_len%d' % (name, L), entry, claim + ' [length = %d]' % L, n=n, thr=thr, unwind=unwind, **kw)
            o['defs']['VF_LEN'] = L
            if L != max(lens) and 'tiers' not in kw: o['tiers'] = ['thorough']   # quick tier: the longest length only
            out.append(o)
        return out
    d = dict(name=name, harness='c13_parallel.cpp', entry=entry, par=True,
             defs={'VF_N': n, 'MANIFOLD_VERIF_SEQ_THRESHOLD': thr},
             unwind=unwind or {'default': n + 1}, backends=['minisat'], timeout=600,
             claim=claim, bounds='n <= %d elements (symbolic length incl. 0), values in a small range; TBB model: <=3 chunks, all split points / chunk orders / body assignments / join orders; kSeqThreshold hook = %d' % (n, thr),
             targets=['src/parallel.h'])
    d.update(kw); return d

PROPERTIES['C13'] = {
  'level_text': 'Bounded model checking of the real src/parallel.h Par branches against a nondeterministic protocol model of TBB: outputs and returned iterators equal a hand-written sequential oracle for every input of length <= 4 and every schedule the model allows (<=3 chunks). Right level: schedule-dependent defects (scan body protocol, merge pivots, radix buffer parity) need all schedules, which a solver covers and a run samples.',
  'level_note': 'Bounds: n<=4, <=3 chunks per parallel call, 2 modelled worker slots; kSeqThreshold lowered to 2 through the MANIFOLD_VERIF hook. The TBB model (models/include/tbb/vf_tbb.h) is trusted to over-approximate oneTBB. Lock-free containers: sequential spec only in this check (interference steps listed in evidence when present).',
  'obligations': _flat([
    _c13('exscan_abssum', 'h_exscan_abssum', 'exclusive_scan(Par) with the repo-style AbsSum operator == sequential exclusive scan; input untouched', tiers=['thorough']),
    _c13('exscan_abssum_inplace', 'h_exscan_abssum_inplace', 'exclusive_scan(Par) in place (d_first == first), as CreateHalfedges/CompactProps call it'),
    _c13('exscan_lastnz', 'h_exscan_lastnz', 'exclusive_scan(Par) with an associative NON-commutative operator (operand order in reverse_join matters)'),
    _c13('incscan', 'h_incscan', 'inclusive_scan(Par) (lambda form of parallel_scan), distinct and in-place buffers', tiers=['thorough']),
    _c13('copy_if', 'h_copy_if', 'copy_if(Par): kept elements in order, returned iterator, nothing written past the end'),
    _c13('remove_if', 'h_remove_if', 'remove_if(Par) == std::remove_if prefix and returned iterator', lens=[1, 2, 3, 4]),
    _c13('remove', 'h_remove', 'remove(Par) == std::remove', lens=[1, 2, 3, 4]),
    _c13('unique', 'h_unique', 'unique(Par) (CopyIfScanBody with the i/i+1 offset trick) == std::unique', lens=[1, 2, 3, 4]),
    [dict(o, name=o['name'].replace('unique_', 'unique_chunk2_'), defs=dict(o['defs'], MANIFOLD_VERIF_UNIQUE_BUFFER=2, VF_N=5),
          unwind={'default': o['defs']['VF_LEN'] + 1}, backends=['minisat', 'kissat'], timeout=1500, tiers=(['quick', 'thorough'] if o['defs']['VF_LEN'] == 3 else ['thorough']),
          claim=o['claim'] + ' - with unique()\'s internal chunk size (MAX_BUFFER_SIZE, 65536 in production) lowered to 2 through the MANIFOLD_VERIF_UNIQUE_BUFFER hook, so that runs of equal values straddle chunk boundaries',
          bounds=o['bounds'].replace('n <= 4', 'n <= 5') + '; unique chunk size hook = 2 (up to 3 chunks of the do-while loop)')
     for o in _c13('unique', 'h_unique', 'unique(Par) == std::unique', lens=[3, 4, 5], n=5)],
    _c13('elementwise', 'h_elementwise', 'for_each/transform/copy/fill/sequence(Par): every index exactly once, nothing outside [first,last)'),
    _c13('gather_scatter', 'h_gather_scatter', 'gather/scatter(Par) through an arbitrary permutation map'),
    _c13('reduce_plus', 'h_reduce_plus', 'reduce(Par, plus, init = identity 0) == sequential fold for every reduction tree', lens=[1, 2, 3]),
    _c13('reduce_plus_len4', 'h_reduce_plus', 'reduce(Par, plus) [length = 4]', tiers=['thorough'], defs_extra={'VF_LEN': 4}, timeout=1800),
    _c13('reduce_max', 'h_reduce_max', 'reduce(Par, max, init = identity) == sequential fold for every reduction tree', lens=[3]),
    _c13('transform_reduce', 'h_transform_reduce', 'transform_reduce(Par, plus, 3*x, init = 0) == sequential fold', lens=[3], tiers=['experimental']),
    _c13('count_all', 'h_count_all', 'count_if, all_of (Par) == sequential definition for every reduction tree', tiers=['thorough']),
    _c13('merge_rec', 'h_merge_rec', 'details::mergeRec (parallel stable merge used by stable_sort(Par, comp)): output is the STABLE merge of two sorted runs (left run first on ties) for every split and every parallel_invoke order', n=3, lens=[2, 3], unwind={'default': 6}, recursion={'mergeRec|mergeSortRec|parallel_invoke': 2}, timeout=2400, mem_gb=16),
    _c13('sorted_range_join', 'h_sorted_range_join', 'details::SortedRange::join + swapBuffer (reduction step of the radix-sort path behind stable_sort(Par) on integers): two adjacent sorted runs, each in either buffer (inTmp symbolic, stale data in the other buffer), every split: afterwards the buffer named by inTmp holds the sorted merge', n=4, thr=8, lens=[2, 3], unwind={'default': 6}, recursion={'mergeRec|mergeSortRec|parallel_invoke': 1}, timeout=2400, mem_gb=16),
    _c13('sorted_range_join_len4', 'h_sorted_range_join', 'details::SortedRange::join + swapBuffer [length = 4]', n=4, thr=8, unwind={'default': 6}, recursion={'mergeRec|mergeSortRec|parallel_invoke': 1}, timeout=1800, mem_gb=16, tiers=['thorough'], defs_extra={'VF_LEN': 4}),
    _c13('radix_sort_u8', 'h_radix_sort', 'stable_sort(Par) on integers = radix_sort / SortedRange (split, operator(), join, swapBuffer, buffer parity inTmp) / LSB_radix_sort / Hist: sorted permutation of the input for every reduce tree over <=2 chunks, split timing and execution order (sequential histogram and std::merge inside: hook threshold 8)', n=3, thr=8, lens=[2, 3],
         unwind={'default': 5, 'Hist|histogram|prefixSum|LSB_radix': 257}, recursion={'mergeRec|mergeSortRec': 2}, defs_extra={'VF_KEY_T': 'unsigned char', 'VF_TBB_MAX_CHUNKS': 2}, timeout=1500, mem_gb=24, tiers=['experimental']),
  ]),
}

_INGEST_CUTS = ['_ZN8manifold8Manifold4Impl15CreateHalfedges.*']
_INGEST_REDIR = {'_ZN8manifold8Manifold4Impl10ReserveIDsEj': 'vf_stub_ReserveIDs', '_ZN8manifold8Manifold4Impl9MakeEmptyENS0_5ErrorE': 'vf_stub_MakeEmpty'}
# length configurations of (vertProperties, triVerts, mergeFrom, mergeTo, runIndex, runOriginalID, runTransform, runFlags, faceID, halfedgeTangent)
_C09_CFG = [  # name, lengths, tier, numProp (None = arbitrary)
  ('defaults',        (12, 12, 0, 0, 0, 0, 0, 0, 0, 0),  'q', 3),
  ('merge1',          (12, 12, 1, 1, 0, 0, 0, 0, 0, 0),  't', 3),
  ('merge2',          (12, 12, 2, 2, 0, 0, 0, 0, 0, 0),  't', 3),
  ('merge_mismatch',  (12, 12, 2, 1, 0, 0, 0, 0, 0, 0),  't', 3),
  ('runs_3_2_full',   (12, 12, 0, 0, 3, 2, 24, 2, 4, 0), 't', 3),
  ('runs_2_2',        (12, 12, 0, 0, 2, 2, 0, 0, 0, 0),  't', 3),
  ('runs_2_1',        (12, 12, 0, 0, 2, 1, 12, 1, 0, 0), 't', 3),
  ('runs_1_1',        (12, 12, 0, 0, 1, 1, 0, 0, 0, 0),  't', 3),
  ('runs_0_2',        (12, 12, 0, 0, 0, 2, 0, 0, 0, 0),  'q', 3),
  ('runs_3_1',        (12, 12, 0, 0, 3, 1, 0, 0, 0, 0),  't', 3),
  ('runs_2_0',        (12, 12, 0, 0, 2, 0, 0, 0, 0, 0),  'q', 3),
  ('runs_3_0',        (12, 12, 0, 0, 3, 0, 0, 0, 0, 0),  't', 3),
  ('runs_1_0',        (12, 12, 0, 0, 1, 0, 0, 0, 0, 0),  't', 3),
  ('faceid_4',        (12, 12, 0, 0, 0, 0, 0, 0, 4, 0),  't', 3),
  ('faceid_3',        (12, 12, 0, 0, 0, 0, 0, 0, 3, 0),  't', 3),
  ('tangent_48',      (12, 12, 0, 0, 0, 0, 0, 0, 0, 48), 'x', 3),
  ('tangent_4',       (12, 12, 0, 0, 0, 0, 0, 0, 0, 4),  'q', 3),
  ('flags_1_runs_2',  (12, 12, 0, 0, 3, 2, 0, 1, 0, 0),  't', 3),
  ('props4',          (16, 12, 1, 1, 0, 0, 0, 0, 0, 0),  't', 4),
  ('anyprop_small',   (4, 3, 1, 1, 1, 1, 12, 1, 1, 4),   'q', None),
  ('anyprop_empty',   (0, 0, 0, 0, 0, 0, 0, 0, 0, 0),    't', None),
  ('anyprop_verts',   (4, 0, 0, 0, 0, 0, 0, 0, 0, 0),    't', None),
  ('anyprop_tris',    (0, 12, 0, 0, 2, 1, 0, 0, 4, 48),  't', None),
]
def _c09(name, lens, tier, numprop=3, entry='h_ingest64', what='MeshGL64'):
    return dict(name=name, harness='c09_ingest.cpp', entry=entry, defs=dict({'VF_LENS': ','.join(map(str, lens))}, **({'VF_NUMPROP': numprop} if numprop is not None else {})),
                cuts=_INGEST_CUTS, redirect=_INGEST_REDIR, models=['rbtree.h'],
                unwind={'default': 13 if lens[9] > 16 else 5, 'h_ingest|sym|fixedvec': 49, 'Rb_tree': 3, 'find_if': 13}, recursion={'default': 2}, backends=['minisat'], timeout=2400 if name.endswith('full') else 1500, object_bits=12, mem_gb=30, cbmc=['--slice-formula'],
                cdefs=['VF_ALLOC_CLASSES=VF_C(4) VF_C(8) VF_C(12) VF_C(16) VF_C(24) VF_C(32) VF_C(48) VF_C(64) VF_C(96) VF_C(192) VF_C(384)'],
                tiers=['quick', 'thorough'] if tier == 'q' else (['experimental'] if tier == 'x' else ['thorough']),
                claim='Impl::Impl(%s) up to the call of CreateHalfedges, numProp %s, vector lengths %s (vertProperties, triVerts, mergeFromVert, mergeToVert, runIndex, runOriginalID, runTransform, runFlags, faceID, halfedgeTangent): memory safe, no div-by-zero / overflow / throw for every tolerance and every content; early returns are empty with an error' % (what, ('= %s' % numprop) if numprop is not None else 'ARBITRARY', lens),
                bounds='lengths fixed per query as listed; numProp, tolerance and ALL contents (indices: any 64/32-bit value, floats: any bit pattern) arbitrary',
                targets=['Manifold::Impl::Impl<%s>(MeshGLP)' % ('double,uint64_t' if what == 'MeshGL64' else 'float,uint32_t'), 'MeshGLP::NumVert/NumTri/Backside/HasNormals', 'Manifold::Impl::MakeEmpty', 'Vec<T>', 'std::map insert (modelled tree)'])
PROPERTIES['C09'] = {
  'level_text': 'Bounded model checking of the real MeshGL ingest ladder on arbitrary input structures: for each of a table of vector-length configurations (valid and invalid shapes around every length relation the ladder checks) and with numProp, tolerance and ALL contents arbitrary, the constructor performs no out-of-bounds access, division by zero, signed overflow, out-of-range float->int conversion or throw before handing over to halfedge construction, and early returns are empty with an error status. Right level: malformed-input defects are single unvalidated index/length relations, which the solver finds by construction (two were found and repaired).',
  'level_note': 'One query per length configuration (symbolic-length heap blocks make CBMC fall back to array theory and run out of memory); 4 vertices x 3 properties, 4 triangles. Everything from CreateHalfedges on is cut (the success path ends there); the id counter meshIDCounter_ starts from an arbitrary value < 10^6 (ReserveIDs itself is inlined real code); std::map via models/rbtree.h (unbalanced BST). Allocation failure is out of scope. Numeric argument guards: see C17 circular_segments. OBJ text, polygon/point-set inputs and status propagation through manifold.cpp are outside.',
  'obligations': [_c09('ingest64_' + n, l, t, np) for n, l, t, np in _C09_CFG] + [
      _c09('ingest32_runs_3_2_full', (12, 12, 0, 0, 3, 2, 24, 2, 4, 0), 't', 3, entry='h_ingest32', what='MeshGL'),
      _c09('ingest32_anyprop_small', (4, 3, 1, 1, 1, 1, 12, 1, 1, 4), 'q', None, entry='h_ingest32', what='MeshGL'),
    ] + [
      dict(_c09('handoff%s_%s' % (bits, n), l, t, np, entry='h_ingest%s' % bits, what='MeshGL64' if bits == '64' else 'MeshGL'),
           cuts=[], defs=dict(_c09('x', l, t, np)['defs'], VF_HANDOFF=1, **({'VF_CONST_TANGENTS': 1} if n == 'tangents' else {})),
           **({'unwind': {'auto': True, 'start': 5, 'max': 49, 'rounds': 24, 'Rb_tree': 3}, 'timeout': 3000} if n == 'tangents' else {}), redirect=dict(_INGEST_REDIR, **{'_ZN8manifold8Manifold4Impl15CreateHalfedges.*': 'vf_stub_CreateHalfedges'}),
           claim='Impl::Impl(%s) SUCCESS path, lengths %s, numProp %s: the state handed to CreateHalfedges satisfies the contract the rest of the library relies on without re-validating: one TriRef per kept triangle with a registered meshID, numProp_ property values per vertex, all triangle indices < NumVert, and a run is marked hasNormals ONLY when there are >= 3 property channels (GetMeshGL / Transform treat slots 0..2 as a vector then)' % ('MeshGL64' if bits == '64' else 'MeshGL', l, ('= %s' % np) if np is not None else 'ARBITRARY'))
      for bits, n, l, t, np in (
        ('64', 'numprop4_flags', (16, 12, 0, 0, 0, 1, 0, 1, 0, 0), 'q', 4),
        ('32', 'numprop4_flags', (16, 12, 0, 0, 0, 1, 0, 1, 0, 0), 'q', 4),
        ('64', 'numprop4_runs2', (16, 12, 0, 0, 3, 2, 24, 2, 4, 0), 'x', 4),       # out of memory at 30 GB
        ('64', 'anyprop_flags', (16, 12, 0, 0, 0, 1, 0, 1, 0, 0), 'x', None),       # out of memory at 30 GB
        ('64', 'tangents', (12, 12, 0, 0, 0, 0, 0, 0, 0, 48), 'q', 3),  # ~1000 s
        ('64', 'merge1', (12, 12, 1, 1, 0, 0, 0, 0, 0, 0), 'x', 3),                 # out of memory at 30 GB (symbolic prop2vert indexing)
        ('64', 'runs_3_2_full', (12, 12, 0, 0, 3, 2, 24, 2, 4, 0), 'x', 3))        # out of memory at 30 GB
    ] + [
      dict(name='makeempty', harness='c09_ingest.cpp', entry='h_makeempty', defs={'VF_REAL_MAKEEMPTY': 1, 'VF_LENS': '0,0,0,0,0,0,0,0,0,0'}, models=['rbtree.h'], unwind={'default': 7, 'Rb_tree': 3}, recursion={'default': 2}, backends=['minisat'], timeout=900, object_bits=12, mem_gb=16,
           claim='Impl::MakeEmpty(status) from an arbitrary small Impl: status set, every container emptied, relation map cleared (the ladder obligations replace MakeEmpty by a recording stub and rely on this)', bounds='2 vertices, 2 triangles, optional relation entry, every Error value', targets=['impl.cpp Manifold::Impl::MakeEmpty'])],
}

PROPERTIES['C11'] = {
  'level_text': 'Bounded model checking of the leaf predicates the 2D sweep rests on (comparators keying std::map/sort, fill rules, exact vertex-on-edge test): decided for all doubles / all int64 / a small lattice. This is the level where a solver is decisive; the sweep itself is outside reach.',
  'level_note': 'Only leaf predicates of boolean2_sweep.cpp and shared.h; the arrangement sweep, winding pass, OutEdgesToPolygons and MergeVerts are NOT covered (DESIGN.md C11 outside). NaN coordinates excluded (AllFinite guards the entry).',
  'obligations': [
    dict(name='lexless', harness='c11_pred.cpp', entry='h_lexless', backends=['minisat'], timeout=300, unwind={'default': 2},
         claim='LexLess is irreflexive, asymmetric, transitive, total on non-NaN points and equals the x-then-y definition', bounds='all finite doubles |x|<=1e100', targets=['boolean2_sweep.cpp LexLess']),
    dict(name='pairlexless', harness='c11_pred.cpp', entry='h_pairlexless', backends=['minisat'], timeout=300, unwind={'default': 2},
         claim='PairLexLess (key order of PolySet2) is a strict total order on pairs of non-NaN points', bounds='all finite doubles', targets=['boolean2_sweep.cpp PairLexLess']),
    dict(name='isinside', harness='c11_pred.cpp', entry='h_isinside', backends=['minisat'], timeout=300, unwind={'default': 2},
         claim='IsInside: Add <=> w>0, Intersect <=> w>1, EvenOdd <=> w odd, including negative windings', bounds='all int64 w', targets=['boolean2_sweep.cpp IsInside']),
    dict(name='pending_add', harness='c11_pred.cpp', entry='h_pending_add', defs={'VF_PA': 2}, backends=['minisat', 'kissat'], timeout=1800, unwind={'default': 4, 'Rb_tree': 3}, recursion={'default': 3}, models=['rbtree.h', 'stdlib.h'], object_bits=12, tiers=['experimental'],
         claim='SweepPass::PendingAdd (through Seed): after any two additions the multiplicity stored for every lex-ordered edge is the signed sum of the additions (reversed edges count negatively), zero-multiplicity edges are erased, no empty inner map remains, end points of stored edges are scheduled as events',
         bounds='2 additions, end points on the 2x2 lattice {0,1}^2 (degenerate a == b included), multiplicities in [-2,2]; std::map/std::set through models/rbtree.h', targets=['boolean2_sweep.cpp SweepPass::PendingAdd, Seed, LexLess']),
    dict(name='polyset_add', harness='c11_pred.cpp', entry='h_polyset_add', backends=['minisat', 'kissat'], timeout=1200, unwind={'default': 5, 'Rb_tree': 4}, recursion={'default': 3}, models=['rbtree.h', 'stdlib.h'], object_bits=12, tiers=['experimental'],
         claim='PolySetAdd: after any three additions the multiplicity stored for every lex-ordered edge key is the signed sum of the additions, zero sums are erased, reversed keys are never stored',
         bounds='3 additions, end points on the 2x2 lattice, multiplicities in [-2,2]; std::map through models/rbtree.h', targets=['boolean2_sweep.cpp PolySetAdd, PairLexLess']),
    dict(name='classify', harness='c11_pred.cpp', entry='h_classify', backends=['minisat', 'kissat'], timeout=900, unwind={'default': 4}, recursion={'default': 2}, defs={'VF_R': 3}, models=['rbtree.h'],
         claim='SweepPass::Classify (event point vs status edge) on the lattice: ENDS at the pending end; for a non-vertical edge spanning p.x, UNDER/OVER by the sign of the exact integer orientation and ON at the edge\'s own processed end; vertical edges by their y-range', bounds='integer lattice [-3,3]^2 for l, r, p (double arithmetic of the real Interpolate kernel)', targets=['boolean2_sweep.cpp SweepPass::Classify, YAtX', 'shared.h Interpolate']),
    dict(name='oninterior', harness='c11_pred.cpp', entry='h_oninterior', backends=['minisat', 'kissat'], timeout=600, unwind={'default': 2}, defs={'VF_R': 4},
         claim='OnInterior never reports a point that is not exactly on the open segment (integer cross product, strict betweenness) and reports every such point for axis-aligned segments', bounds='integer lattice [-4,4]^2 for v,a,b (double arithmetic of the real Interpolate kernel)', targets=['boolean2_sweep.cpp OnInterior, YAtX', 'shared.h Interpolate']),
  ],
}

PROPERTIES['C02'] = {
  'level_text': 'Bounded model checking of the real symbolic-perturbation kernels: Shadows is a perturbed strict order for all doubles; Kernel02 (with Shadow01, Interpolate) satisfies every internal contract the library asserts in debug builds (Interpolate domain, k==2 before the second Interpolate, vector bounds) plus |s02|<=1 for ALL finite operand coordinates and normals and every vertex numbering. This is the layer where operand-pose-specific branch bugs live.',
  'level_note': 'Kernel level only: inclusion arithmetic, winding flood fill and face assembly of boolean_result.cpp are outside the claim. Quick tier decides Kernel02 at IEEE half precision (|x|<=1024); thorough at double (|x|<=1e100).',
  'obligations': [
    dict(name='shadows', harness='c02_kernels.cpp', entry='h_shadows', backends=['minisat'], timeout=300, unwind={'default': 2},
         claim='Shadows(p,q,d) xor Shadows(q,p,-d) unless p==q and d==0; withSign', bounds='all finite doubles', targets=['shared.h Shadows, withSign']),
  ] + [
    dict(name='shadow01_edge_symmetry_' + n, harness='c02_kernels.cpp', entry='h_s01sym_' + n, real='f12', defs={'VF_BND': 8}, backends=['minisat', 'kissat'], timeout=900, unwind={'default': 13},
         tiers=['quick', 'thorough'] if n == 'tt' else ['thorough'],
         claim='Shadow01<%s>: the result for an edge does not depend on which of its two paired halfedges names it (tie-break direction = sum of both adjacent face normals), for all operands including exact ties; result in {-1,0,1}' % n,
         bounds='12-bit IEEE-style floats (4 exponent, 7 mantissa bits), |x| <= 8: the tie-break logic does not depend on precision, and the two Interpolate evaluations must be recognised as equal by the solver', targets=['boolean3.cpp Shadow01', 'shared.h Shadows, Interpolate, withSign'])
    for n in ('tt', 'tf', 'ft', 'ff')
  ] + [
    dict(name='k02_tt_f16', harness='c02_kernels.cpp', entry='h_k02_tt', real='f16', defs={'VF_BND': 1024}, backends=['kissat', 'minisat'], timeout=900, unwind={'default': 13}, tiers=['quick', 'thorough'],
         claim='Kernel02<expandP=true,forward=true>: all harvested library assertions + |s02|<=1 + z02 not NaN when s02!=0', bounds='IEEE binary16 arithmetic, |x|<=1024, arbitrary finite normals, all 6 vertex numberings',
         targets=['boolean3.cpp Kernel02::operator(), Shadow01, LoadFaceEdges', 'shared.h Interpolate, Shadows']),
    dict(name='k11_normal_scale_t', harness='c02_kernels.cpp', entry='h_k11scale_t', real='f16', defs={'VF_BND': 64, 'VF_TIECFG': 1}, backends=['kissat', 'minisat'], timeout=3000, unwind={'default': 13}, tiers=['quick', 'thorough'],
         claim='Kernel11<expandP=true>: multiplying ALL vertex and face normals of both operands by 2 changes neither s11 nor the intersection point, for all operands including exact ties (the symbolic perturbation is a direction: every tie-break is homogeneous in the normals)',
         bounds='5 concrete edge-pair configurations with exact ties (z tie at the crossing, x ties between end points, vertex on edge, sloped tie, and a tie-free control) - the perturbation only acts at ties - and ALL vertex and face normals arbitrary binary16 values |x| <= 64 (the positions, hence the ties, are exact in every format; sums and differences of normals keep their sign in every IEEE format, so counterexamples replay in double)', targets=['boolean3.cpp Kernel11::operator(), Shadow01', 'shared.h Intersect, Interpolate, Shadows, withSign']),
    dict(name='k11_normal_scale_f', harness='c02_kernels.cpp', entry='h_k11scale_f', real='f16', defs={'VF_BND': 64, 'VF_TIECFG': 1}, backends=['kissat', 'minisat'], timeout=1500, unwind={'default': 13}, tiers=['thorough'],
         claim='Kernel11<expandP=false>: same invariance under doubling all normals', bounds='same 5 tie configurations, all normals arbitrary binary16 values', targets=['boolean3.cpp Kernel11<false>']),
    dict(name='k02_ff_f16', harness='c02_kernels.cpp', entry='h_k02_ff', real='f16', defs={'VF_BND': 1024}, backends=['kissat', 'minisat'], timeout=900, unwind={'default': 13}, tiers=['thorough'],
         claim='Kernel02<false,false>: same contracts', bounds='binary16, |x|<=1024', targets=['boolean3.cpp Kernel02<false,false>']),
  ],
}

PROPERTIES['C05'] = {
  'level_text': 'Bounded model checking of the real copy-on-write storage (Vec<T,true>, Halfedges): from every sharing configuration of three handles, one or two arbitrary operations through the library\'s MakeUnique discipline leave every other handle\'s observable contents bit-identical; harvested AssertUnique obligations hold; blocks are freed once (CBMC memory-leak and double-free checks).',
  'level_note': 'Storage level only. The shared_ptr<const Impl> discipline of manifold.cpp/csg_tree.cpp, CrossSection PathImpl and the MakeUnique call sites inside mesh algorithms are outside this check (DESIGN.md C05). Vectors of <=3 ints, <=2 operations.',
  'obligations': [
  ] + [
    dict(name='sharedvec_cfg%d' % c, harness='c05_vec.cpp', entry='h_sharedvec', defs={'VF_CFG': c, 'VF_N': 2}, backends=['minisat'], timeout=1200, unwind={'default': 5}, cbmc=['--memory-leak-check', '--slice-formula'], object_bits=11,
         cdefs=['VF_ALLOC_CLASSES=VF_C(4) VF_C(8) VF_C(12) VF_C(16) VF_C(24) VF_C(512)', 'VF_ALLOC_STRICT'], mem_gb=20,
         claim='SharedVec<int>, sharing configuration %d of 5: copy/move/assign/MakeUnique/push_back/resize/clear/pop_back/operator[] on one handle never change another handle; no leak, no double free; every mutator reaches AssertUnique with a unique block' % c,
         bounds='3 handles, contents <=2 symbolic ints, 1 arbitrary operation (8 kinds) on an arbitrary handle', targets=['src/vec.h Vec<int,true>'])
    for c in range(5)
  ] + [
    dict(name='sharedvec_two_steps', harness='c05_vec.cpp', entry='h_sharedvec_two_steps', defs={'VF_N': 2}, backends=['minisat'], timeout=1500, unwind={'default': 5}, cbmc=['--memory-leak-check', '--slice-formula'], object_bits=11, mem_gb=24,
         cdefs=['VF_ALLOC_CLASSES=VF_C(4) VF_C(8) VF_C(12) VF_C(16) VF_C(24) VF_C(512) VF_C(1024)', 'VF_ALLOC_STRICT'],
         claim='SharedVec<int>: a handle possibly emptied without releasing storage (clear(false), pop_back) is shared; three alternating MakeUnique+mutation steps on the two handles never change what the other handle observes; no use-after-free, double free or leak',
         bounds='contents <=2 symbolic ints, 3 steps (push_back / resize / element write), 3 pre-states', targets=['src/vec.h Vec<int,true>::MakeUnique, push_back, resize, reserve, clear, pop_back, dealloc, operator=']),
    dict(name='halfedges', harness='c05_vec.cpp', entry='h_halfedges', backends=['minisat'], timeout=1200, unwind={'default': 8}, cbmc=['--memory-leak-check', '--slice-formula'], object_bits=11, mem_gb=20,
         cdefs=['VF_ALLOC_CLASSES=VF_C(4) VF_C(12) VF_C(24) VF_C(28) VF_C(48) VF_C(512)'],
         claim='Halfedges wrappers (MakeUnique, MakeInvalid, Set, push_back, resize, clear) on one handle leave a sharing handle unchanged', bounds='<=6 halfedges, 1 operation', targets=['src/shared.h Halfedges']),
  ],
}

PROPERTIES['C17'] = {
  'level_text': 'Bounded model checking of the numeric kernels behind the constructors and transforms: Quality settings -> segment counts for every double/int argument (no undefined float->int conversion, documented multiples of four, monotone in |radius| at the defaults), and exactness of sind/cosd at every multiple of 90 degrees up to 9e7 degrees with remquo modelled by its C17 contract.',
  'level_note': 'Numeric/index kernels only; point-in-solid semantics of Cube/Sphere/Cylinder/Extrude/Revolve/LevelSet, Warp and volume scaling are outside the claim (DESIGN.md C17). remquo is a contract model (models/libm.h).',
  'obligations': [
    dict(name='circular_segments', harness='c17_numeric.cpp', entry='h_circular_segments', models=['libm.h'], backends=['minisat'], timeout=600, unwind={'default': 3},
         claim='Quality::Set*/GetCircularSegments for every double angle/length/radius and int segment count: no UB, result is the set count or a multiple of 4 >= 4',
         bounds='all 64-bit doubles (incl. NaN, inf, denormals) and all ints', targets=['manifold.cpp Quality::SetMinCircularAngle/SetMinCircularEdgeLength/SetCircularSegments/GetCircularSegments']),
    dict(name='circular_segments_default', harness='c17_numeric.cpp', entry='h_circular_segments_default', models=['libm.h'], backends=['minisat'], timeout=600, unwind={'default': 3},
         claim='with default Quality: 4 <= n <= 36, multiple of 4, even in radius, monotone non-decreasing in |radius|', bounds='all doubles', targets=['Quality::GetCircularSegments']),
    dict(name='sind_exact_k8', harness='c17_numeric.cpp', entry='h_sind_exact', defs={'VF_KMAX': 8}, models=['libm.h'], backends=['minisat', 'kissat'], timeout=900, unwind={'default': 3}, recursion={'sind': 2}, object_bits=12, forbid=['_ZN8manifold4math7RemPio2.*'],
         claim='sind(90k) and cosd(90k) are exactly 0, +1 or -1 with the right sign for |k| <= 8 (two full turns in both directions)', bounds='|k| <= 8; remquo by contract; RemPio2 asserted unreachable', targets=['common.h sind, cosd', 'math.h sin, cos (small-argument paths)']),
    dict(name='sind_exact', harness='c17_numeric.cpp', entry='h_sind_exact', models=['libm.h'], backends=['minisat', 'kissat'], timeout=900, tiers=['experimental'], unwind={'default': 3}, recursion={'sind': 2}, object_bits=12, forbid=['_ZN8manifold4math7RemPio2.*'],
         claim='sind(90k) and cosd(90k) are exactly 0, +1 or -1 with the right sign', bounds='|k| <= 10^6; remquo by contract; the large-argument reduction RemPio2 is asserted unreachable', targets=['common.h sind, cosd', 'math.h sin, cos (small-argument paths)']),
    dict(name='sind_nonfinite', harness='c17_numeric.cpp', entry='h_sind_nonfinite', models=['libm.h'], backends=['minisat'], timeout=600, unwind={'default': 3}, recursion={'sind': 2}, object_bits=12, forbid=['_ZN8manifold4math7RemPio2.*'],
         claim='sind/cosd of NaN or +-inf is NaN', bounds='all non-finite doubles', targets=['common.h sind, cosd']),
  ],
}

PROPERTIES['C15'] = {
  'level_text': 'Bounded model checking of the cancellation building blocks with the cancel flag as a sticky nondeterministic oracle (Cancel() may take effect at any check): the ctx-aware for_each either visits every element exactly once or leaves the flag observably set; Progress() stays in [0,1] for all counter values; the counter reset order never lets a concurrent reader compute Progress() > 1.',
  'level_note': 'Building blocks only (parallel.h for_each, ExecutionContext::Progress, ResetForStaticFactory). Phase skeletons of Boolean3::Result / Impl(MeshGL) / CreateLevelSet and poisoned caches are outside this check unless listed in the evidence. Sequential consistency assumed for the atomics.',
  'obligations': [
    dict(name='foreach_seq_cancel', harness='c15_cancel.cpp', entry='h_foreach_seq', defs={'VF_N': 1100}, cancel_oracle=True, backends=['minisat'], timeout=900, unwind={'default': 1101},
         claim='for_each(Seq, ctx): elements visited in order, never twice; a short visit count implies the cancel flag fired and stays observable; real kSeqCancelChunk = 1024',
         bounds='n <= 1100 (crosses the 1024-element check once), cancel oracle at every check site', targets=['parallel.h for_each(policy, first, last, ctx, f)', 'execution_impl.h IsCancelled']),
    dict(name='foreach_noctx', harness='c15_cancel.cpp', entry='h_foreach_noctx', backends=['minisat'], timeout=300, unwind={'default': 9},
         claim='for_each with ctx == nullptr always completes', bounds='n <= 8', targets=['parallel.h for_each']),
    dict(name='progress_range', harness='c15_cancel.cpp', entry='h_progress', fnptr_defs='_Sp_counted', models=['stdlib.h'], recursion={'default': 2}, backends=['minisat', 'kissat'], timeout=600, unwind={'default': 3}, tiers=['quick', 'thorough'],
         claim='Progress() in [0,1] whenever 0 <= donePhases <= totalPhases; 1 when total == 0 or done == total', bounds='all int counter values', targets=['execution_impl.cpp ExecutionContext::Progress']),
    dict(name='boolean_cancel_any_point', harness='c15_boolean.cpp', entry='h_boolean_cancel', cancel_oracle=True, models=['rbtree.h', 'stdlib.h', 'hash_pmr.h'],
         redirect={'_ZN8manifold14ManifoldParamsEv': 'vf_stub_ManifoldParams'}, unwind={'default': 70}, recursion={'default': 12}, object_bits=13,
         backends=['minisat'], timeout=14000, mem_gb=40, tiers=['experimental'],
         claim='Boolean3::Result(Add) of two concrete disjoint tetrahedra under EVERY cancellation schedule (sticky oracle at every atomic load of the cancel flag, i.e. Cancel() taking effect at the k-th check for every k): the result is either Cancelled and empty, or - only if cancellation never became visible - the complete 8-triangle union with donePhases == kPhasesPerBoolean',
         bounds='one concrete operand pair (two tetrahedra, disjoint boxes); symbolic: the cancellation point only', targets=['boolean_result.cpp Boolean3::Result (all 11 phase() sites, PhaseBalance)', 'sort.cpp SortGeometry(ctx)', 'parallel.h for_each(ctx)', 'face_op.cpp Face2Tri', 'edge_op.cpp SimplifyTopology']),
    dict(name='progress_vs_reset', harness='c15_cancel.cpp', entry='h_progress_vs_reset', cdefs=['VF_HAVE_ENV'], extra_roots=['vf_env'], fnptr_defs='_Sp_counted', models=['stdlib.h'],
         backends=['minisat', 'kissat'], timeout=600, unwind={'default': 4}, recursion={'default': 2},
         claim='ExecutionContext::Progress() polled while another thread resets the same context for reuse (ResetForStaticFactory: donePhases = 0, then totalPhases = new, interleaved anywhere between Progress()\'s atomic loads): the value stays in [0, 1]',
         bounds='all int counter values with 0 <= done <= total, any new total >= 0; the writer is a model whose store order is the guarantee asserted on the real ResetForStaticFactory by reset_order; progress of the NEXT evaluation between the two loads is outside (a context is documented as one evaluation at a time)',
         targets=['execution_impl.cpp ExecutionContext::Progress']),
    dict(name='refine_cancel_after_sort', harness='c15_refine.cpp', entry='h_refine_cancel', cancel_oracle=True, models=['stdlib.h', 'libm.h', 'rbtree.h'],
         redirect={'_ZN8manifold8Manifold4Impl12SortGeometryE.*': 'vf_stub_SortGeometry', '_ZN8manifold8Manifold4Impl9MakeEmptyENS0_5ErrorE': 'vf_stub_MakeEmpty',
                   '_ZN8manifold8Manifold4Impl9SubdivideE.*': 'vf_stub_Subdivide', '_ZN8manifold8Manifold4Impl13CalculateBBoxEv': 'vf_stub_noop',
                   '_ZN8manifold8Manifold4Impl20CalculateVertNormalsEv': 'vf_stub_noop', '_ZN8manifold8Manifold4Impl21SetNormalsAndCoplanarEv': 'vf_stub_noop'},
         backends=['minisat', 'kissat'], timeout=900, unwind={'default': 8}, recursion={'default': 2}, object_bits=12,
         claim='Impl::Refine (control skeleton): whenever cancellation becomes visible at any check inside Refine or inside its trailing SortGeometry(ctx) - which returns silently on cancel - the Impl ends up emptied with Error::Cancelled, never NoError with a partially sorted mesh',
         bounds='one concrete 2-triangle closed mesh without tangents; Subdivide, the normal/bbox recomputation and SortGeometry are stubs (SortGeometry\'s stub performs the four cancellation checks of the real one); symbolic: the point at which Cancel() becomes visible (sticky oracle at every atomic load of the flag)',
         targets=['smoothing.cpp Impl::Refine', 'execution_impl.h IsCancelled']),
    dict(name='reset_order', harness='c15_cancel.cpp', entry='h_reset_order', cdefs=['VF_HAVE_ENV'], extra_roots=['vf_env'], backends=['minisat', 'kissat'], timeout=600, unwind={'default': 3},
         claim='ResetForStaticFactory: an observer computing Progress() before/after each of the four atomic stores never sees a value > 1', bounds='all int counter values, observer at every atomic access', targets=['execution_impl.cpp ResetForStaticFactory']),
  ],
}

PROPERTIES['C04'] = {
  'level_text': 'Bounded model checking of the places where scheduling could leak into results: the real parallel primitives and FlagStore::run_par under a nondeterministic TBB protocol model give, for every schedule the model allows, exactly the sequential result (bitwise), including stability of the parallel merge; and every comparator that keys a normalising sort is a strict weak order whose ties are exactly equal keys.',
  'level_note': 'Primitive level: n<=4 elements, <=3 chunks, 2 modelled workers, kSeqThreshold lowered by the MANIFOLD_VERIF hook. Whole-mesh PAR=ON vs PAR=OFF equality, the Kernel12 recorder + re-sort in Intersect12, Face2Tri/BatchBoolean task groups and CrossSection are outside this check. libstdc++ std::stable_sort is replaced by a stable insertion sort model where noted.',
  'obligations': [
    dict(name='flagstore_run_par', harness='c04_determinism.cpp', entry='h_flagstore', par=True, cxxflags=['-fno-inline'], defs={'VF_N': 3},
         redirect={'_ZSt11stable_sortIPmSt4lessImEEvT_S3_T0_': 'vf_stub_stable_sort_sz'}, unwind={'auto': True, 'start': 2, 'max': 8}, recursion={'default': 2}, object_bits=12,
         cdefs=['VF_ALLOC_CLASSES=VF_C(8) VF_C(16) VF_C(24) VF_C(32) VF_C(48) VF_C(64) VF_C(96) VF_C(1024)'],
         backends=['minisat'], timeout=900, tiers=['experimental'],
         claim='FlagStore::run_par calls f exactly on the flagged indices in ascending order for every chunking, every chunk->worker assignment and every combine_each order',
         bounds='n <= 3 indices, <=3 chunks, 2 workers; std::stable_sort(size_t*) modelled by insertion sort', targets=['edge_op.cpp FlagStore::run_par']),
    dict(name='cmp_halfedge', harness='c04_determinism.cpp', entry='h_cmp_halfedge', par=True, backends=['minisat'], timeout=300, unwind={'default': 2},
         claim='Halfedge::operator< is a strict weak order; incomparable <=> same (startVert,endVert)', bounds='all int fields', targets=['shared.h Halfedge::operator<']),
    dict(name='cmp_pairdata', harness='c04_pairdata.cpp', entry='h_cmp_pairdata', backends=['minisat'], timeout=300, unwind={'default': 2},
         claim='HalfedgePairData::operator< (sort key of the large-vertex path of CreateHalfedges, whose bucket slots are allocated in schedule order): strict weak order whose ties are exactly equal (larger vertex, triangle) - the key that identifies an entry inside a bucket - so the per-bucket sort removes the schedule',
         bounds='all int field values', targets=['impl.cpp HalfedgePairData::operator<']),
    dict(name='cmp_tmpedge', harness='c04_determinism.cpp', entry='h_cmp_tmpedge', par=True, backends=['minisat'], timeout=300, unwind={'default': 2},
         claim='TmpEdge: constructor normalises first<=second; operator< strict weak order with ties = equal (first,second)', bounds='all int fields', targets=['shared.h TmpEdge']),
    dict(name='cmp_edgepos', harness='c04_edgepos.cpp', entry='h_cmp_edgepos', backends=['minisat'], timeout=300, unwind={'default': 2},
         claim='EdgePos::operator< strict weak order; ties <=> equal (edgePos, collisionId)', bounds='all finite doubles, all ints', targets=['boolean_result.cpp EdgePos::operator<']),
    _c13('par_exscan_lastnz', 'h_exscan_lastnz', 'exclusive_scan(Par) with a non-commutative operator is schedule independent (== sequential)'),
    _c13('par_merge_rec_len3', 'h_merge_rec', 'parallel stable merge == sequential stable merge for every invoke order [length 3]', n=3, unwind={'default': 6}, recursion={'mergeRec|mergeSortRec|parallel_invoke': 2}, timeout=1800, mem_gb=16, defs_extra={'VF_LEN': 3}, tiers=['thorough']),
  ],
}
for _p in ('C04', 'C13'):
    for _o in PROPERTIES[_p]['obligations']:
        if 'defs_extra' in _o: _o['defs'].update(_o.pop('defs_extra'))

PROPERTIES['C20'] = {
  'level_text': 'Bounded model checking (differential) of the C binding sources against the C++ members they name: for all finite double arguments every manifold_box_* / manifold_rect_* function returns exactly what the C++ Box/Rect call returns and constructs at the caller-supplied address; the Error/OpType/JoinType tables are name-preserving and injective; scalar conversions keep component order; 22 forwarding wrappers of manifoldc.cpp / cross.cpp call the C++ method they name exactly once, on the object passed, with bit-identical arguments in order, and build the result at the caller\'s address.',
  'level_note': 'Covers bindings/c/box.cpp, rect.cpp and conv.cpp completely (value-level functions) and 22 forwarding wrappers: 14 of manifoldc.cpp (translate, scale, mirror, rotate, transform, trim_by_plane, smooth_out, refine, refine_to_length, refine_to_tolerance, set_tolerance, simplify, boolean, min_gap) and 8 of cross.cpp (translate, scale, mirror, rotate, simplify, transform, offset, boolean), with the C++ method replaced by a recording stub. The remaining ~220 wrappers of manifoldc.cpp / cross.cpp (MeshGL accessors and copies, vectors, callbacks, alloc/destruct/delete pairing, cross-section calls) are NOT covered by this check.',
  'obligations': [
    dict(name='box_accessors', harness='c20_cbind.cpp', entry='h_box', real='f16', defs={'VF_FB': 64, 'VF_PART': 1}, backends=['minisat', 'kissat'], timeout=600, unwind={'default': 7},
         claim='[part: min, max, dimensions, center, scale] manifold_box, _min, _max, _dimensions, _center, _scale, _contains_pt, _contains_box, _does_overlap_pt, _does_overlap_box, _is_finite, _union, _translate, _mul, _include_pt equal the C++ Box calls; placement at mem',
         bounds='IEEE binary16 values |x| <= 64 (argument marshalling does not depend on precision; keeps the differential multiplier/adder equivalences decidable)', targets=['bindings/c/box.cpp', 'bindings/c/conv.cpp to_c/from_c(Box, vec3)']),
    dict(name='box_predicates', harness='c20_cbind.cpp', entry='h_box', real='f16', defs={'VF_FB': 64, 'VF_PART': 2}, backends=['minisat', 'kissat'], timeout=600, unwind={'default': 7},
         claim='[part: contains_pt, contains_box, does_overlap_pt, does_overlap_box, is_finite] manifold_box, _min, _max, _dimensions, _center, _scale, _contains_pt, _contains_box, _does_overlap_pt, _does_overlap_box, _is_finite, _union, _translate, _mul, _include_pt equal the C++ Box calls; placement at mem',
         bounds='IEEE binary16 values |x| <= 64 (argument marshalling does not depend on precision; keeps the differential multiplier/adder equivalences decidable)', targets=['bindings/c/box.cpp', 'bindings/c/conv.cpp to_c/from_c(Box, vec3)']),
    dict(name='box_ops', harness='c20_cbind.cpp', entry='h_box', real='f16', defs={'VF_FB': 64, 'VF_PART': 3}, backends=['minisat', 'kissat'], timeout=600, unwind={'default': 7},
         claim='[part: union, translate, mul, include_pt] manifold_box, _min, _max, _dimensions, _center, _scale, _contains_pt, _contains_box, _does_overlap_pt, _does_overlap_box, _is_finite, _union, _translate, _mul, _include_pt equal the C++ Box calls; placement at mem',
         bounds='IEEE binary16 values |x| <= 64 (argument marshalling does not depend on precision; keeps the differential multiplier/adder equivalences decidable)', targets=['bindings/c/box.cpp', 'bindings/c/conv.cpp to_c/from_c(Box, vec3)']),
    dict(name='box_transform', harness='c20_cbind.cpp', entry='h_box_transform', real='f16', backends=['minisat', 'kissat'], timeout=600, unwind={'default': 13},
         claim='manifold_box_transform passes its 12 scalars to mat3x4 column by column (equals Box::Transform)', bounds='integer-valued doubles in [-8,8] (exact arithmetic, so any argument permutation is visible)', targets=['bindings/c/box.cpp manifold_box_transform']),
    dict(name='rect_accessors', harness='c20_cbind.cpp', entry='h_rect', real='f16', defs={'VF_FB': 64, 'VF_PART': 1}, backends=['minisat', 'kissat'], timeout=600, unwind={'default': 5},
         claim='[part: min, max, dimensions, center, scale] every manifold_rect_* value function equals the C++ Rect call; placement at mem', bounds='IEEE binary16 values |x| <= 64', targets=['bindings/c/rect.cpp']),
    dict(name='rect_predicates', harness='c20_cbind.cpp', entry='h_rect', real='f16', defs={'VF_FB': 64, 'VF_PART': 2}, backends=['minisat', 'kissat'], timeout=600, unwind={'default': 5},
         claim='[part: contains_pt, contains_box, does_overlap_pt, does_overlap_box, is_finite] every manifold_rect_* value function equals the C++ Rect call; placement at mem', bounds='IEEE binary16 values |x| <= 64', targets=['bindings/c/rect.cpp']),
    dict(name='rect_ops', harness='c20_cbind.cpp', entry='h_rect', real='f16', defs={'VF_FB': 64, 'VF_PART': 3}, backends=['minisat', 'kissat'], timeout=600, unwind={'default': 5},
         claim='[part: union, translate, mul, include_pt] every manifold_rect_* value function equals the C++ Rect call; placement at mem', bounds='IEEE binary16 values |x| <= 64', targets=['bindings/c/rect.cpp']),
    dict(name='box_arith', harness='c20_cbind.cpp', entry='h_box_arith', real='f16', backends=['minisat', 'kissat'], timeout=600, unwind={'default': 7},
         claim='manifold_box_translate / manifold_box_mul equal Box::operator+ / operator* (scalars arrive in x,y,z order); placement at mem', bounds='integer-valued doubles in [-8,8] (exact arithmetic)', targets=['bindings/c/box.cpp']),
    dict(name='rect_arith', harness='c20_cbind.cpp', entry='h_rect_arith', real='f16', backends=['minisat', 'kissat'], timeout=600, unwind={'default': 5},
         claim='manifold_rect_translate / manifold_rect_mul equal Rect::operator+ / operator*', bounds='integer-valued doubles in [-8,8]', targets=['bindings/c/rect.cpp']),
    dict(name='rect_transform', harness='c20_cbind.cpp', entry='h_rect_transform', real='f16', backends=['minisat', 'kissat'], timeout=600, unwind={'default': 7},
         claim='manifold_rect_transform passes its 6 scalars to mat2x3 column by column (equals Rect::Transform)', bounds='integer-valued doubles in [-8,8] (exact arithmetic, so any argument permutation is visible)', targets=['bindings/c/rect.cpp manifold_rect_transform']),
    dict(name='enums_conv', harness='c20_cbind.cpp', entry='h_enums', backends=['minisat'], timeout=300, unwind={'default': 3},
         claim='to_c(Manifold::Error) maps each of the 15 enumerators to the C enumerator of the same name, injectively; OpType/JoinType tables; vec2/3/4 conversions keep component order', bounds='all enumerators, all finite doubles', targets=['bindings/c/conv.cpp']),
  ],
}

PROPERTIES['C12'] = {
  'level_text': 'Bounded model checking of the real Hull and Simplify kernels of CrossSection: HullImpl on every multiset of <=4 lattice points returns a strictly convex counter-clockwise polygon over input points that contains every input point (exact integer orientation oracle); SimplifyRing returns an in-order subsequence with >=3 vertices in which, if more than 3 remain, every vertex deviates by at least the tolerance.',
  'level_note': 'Hull and Simplify clauses only; Offset joins, Decompose and monotonicity in delta are outside this check. Lattice radius 2, <=4 points / ring of <=5; SimplifyRing arithmetic decided at IEEE half precision. libstdc++ stable_sort/priority_queue are executed as compiled (real code).',
  'obligations': [
    dict(name='hull_n4', harness='c12_cross.cpp', cdefs=['VF_ALLOC_CLASSES=VF_C(4) VF_C(5) VF_C(12) VF_C(16) VF_C(20) VF_C(32) VF_C(48) VF_C(64) VF_C(80) VF_C(96) VF_C(128)'], mem_gb=20, entry='h_hull', defs={'VF_LEN': 4, 'VF_R': 2}, models=['stdlib.h'], unwind={'default': 5}, recursion={'default': 2}, cbmc=['--slice-formula'],
         backends=['minisat'], timeout=1500, object_bits=12,
         claim='HullImpl: vertices are input points; if the points are not all collinear the result has >=3 vertices, is strictly convex CCW and contains every input point', bounds='4 lattice points in [-2,2]^2 (duplicates, collinear allowed)', targets=['cross_section.cpp HullImpl, HullBacktrack', 'polygon.cpp CCW']),
    dict(name='hull_n3', harness='c12_cross.cpp', cdefs=['VF_ALLOC_CLASSES=VF_C(4) VF_C(5) VF_C(12) VF_C(16) VF_C(20) VF_C(32) VF_C(48) VF_C(64) VF_C(80) VF_C(96) VF_C(128)'], mem_gb=20, entry='h_hull', defs={'VF_LEN': 3, 'VF_R': 3}, models=['stdlib.h'], unwind={'default': 4}, recursion={'default': 2}, cbmc=['--slice-formula'],
         backends=['minisat'], timeout=1500, object_bits=12,
         claim='HullImpl on 3 points', bounds='3 lattice points in [-3,3]^2', targets=['cross_section.cpp HullImpl']),
    dict(name='simplify_n4', harness='c12_cross.cpp', cdefs=['VF_ALLOC_CLASSES=VF_C(4) VF_C(5) VF_C(12) VF_C(16) VF_C(20) VF_C(32) VF_C(48) VF_C(64) VF_C(80) VF_C(96) VF_C(128)'], mem_gb=20, entry='h_simplify', defs={'VF_LEN': 4, 'VF_R': 2}, models=['stdlib.h'], real='f16', unwind={'default': 6, 'heap': 4}, recursion={'default': 2}, cbmc=['--slice-formula'],
         backends=['minisat'], timeout=1500, object_bits=12,
         claim='SimplifyRing: in-order subsequence, size >= 3, remaining vertices deviate >= tol when more than 3 remain', bounds='ring of 4 lattice points in [-2,2]^2, tol any binary16 value |tol|<=16', targets=['cross_section.cpp SimplifyRing']),
  ],
}

PROPERTIES['C12']['obligations'] += [
    dict(name='hull_n%d_f16' % n, harness='c12_cross.cpp', cdefs=['VF_ALLOC_CLASSES=VF_C(4) VF_C(5) VF_C(12) VF_C(16) VF_C(20) VF_C(32) VF_C(48) VF_C(64) VF_C(80) VF_C(96) VF_C(128)'], mem_gb=24, entry='h_hull',
         defs={'VF_LEN': n, 'VF_R': 2}, models=['stdlib.h'], real='f16', unwind={'auto': True, 'start': 3, 'max': 16, 'rounds': 30}, recursion={'default': 2}, cbmc=['--slice-formula'],
         backends=['minisat', 'kissat'], timeout=2400, object_bits=12, tiers=['experimental'],
         claim='HullImpl: vertices are input points; if the points are not all collinear the result has >=3 vertices, is strictly convex CCW and contains every input point',
         bounds='%d lattice points in [-2,2]^2 (duplicates, collinear allowed); IEEE binary16 arithmetic, in which every product and difference met on this lattice is exact' % n, targets=['cross_section.cpp HullImpl, HullBacktrack', 'polygon.cpp CCW'])
    for n in (3, 4)]
PROPERTIES['C06'] = {
  'level_text': 'Bounded model checking of the lock-free building blocks under a rely/guarantee interference model: the real AtomicAdd CAS loop (with spurious weak-CAS failures) and Impl::ReserveIDs, executed by one thread while an environment performs up to 2 legal steps of the same operation around every atomic access, are linearisable (no lost update, returned value = state just before the own step, reserved ID ranges pairwise disjoint).',
  'level_note': 'Narrow: only the atomic building blocks. The mutex discipline on pNode_/cache_/paths_, shared_ptr atomic publication, ConcurrentSharedPtr and deadlock freedom are NOT covered (they need a concurrent engine for libstdc++ smart pointers, which this tool chain does not have). Sequential consistency assumed; <=2 interference events, <=1 spurious CAS failure.',
  'obligations': [
    dict(name='atomic_add_interference', harness='c06_atomics.cpp', entry='h_atomic_add', cdefs=['VF_HAVE_ENV'], extra_roots=['vf_env'], backends=['minisat'], timeout=600, unwind={'default': 5},
         claim='AtomicAdd<size_t> under <=2 interfering adds and a spurious compare_exchange_weak failure: terminates, no lost update, returns the value immediately before its own add',
         bounds='2 interference events at any atomic access, 1 spurious failure, values < 2^40', targets=['utils.h AtomicAdd<T> (CAS loop)', 'atomic_compat.h AtomicRef']),
    dict(name='reserve_ids_interference', harness='c06_atomics.cpp', entry='h_reserve_ids', cdefs=['VF_HAVE_ENV'], extra_roots=['vf_env'], backends=['minisat'], timeout=600, unwind={'default': 5},
         claim='Impl::ReserveIDs under <=2 concurrent reservations: returned range disjoint from every other range, counter advanced by the total',
         bounds='2 interference events, counter < 2^30 (no uint32 wrap), n < 2^20', targets=['impl.cpp Manifold::Impl::ReserveIDs']),
  ],
}

PROPERTIES['C10'] = {
  'level_text': 'Bounded model checking of the orientation predicate under the triangulator and the convex fast path: CCW with zero tolerance equals the sign of the exact integer determinant on a lattice, and for every tolerance it is antisymmetric under swapping the last two points and 0 for a repeated point.',
  'level_note': 'Leaf predicate only. Ear clipping, keyholing, HalfedgeTriangulation pairing, termination and independence from triangulator reuse are NOT covered by this check (std::multiset/linked-list state of the ear clipper is outside what the encoder reaches at a useful size).',
  'obligations': [
    dict(name='ccw_lattice', harness='c10_ccw.cpp', entry='h_ccw_lattice', defs={'VF_R': 8}, backends=['minisat', 'kissat'], timeout=600, unwind={'default': 4},
         claim='CCW(p0,p1,p2,0) == sign of the integer determinant', bounds='lattice [-8,8]^2, double arithmetic', targets=['utils.h CCW']),
    dict(name='ccw_antisym', harness='c10_ccw.cpp', entry='h_ccw_antisym', real='f16', backends=['minisat', 'kissat'], timeout=1800, unwind={'default': 2},
         claim='CCW(p0,p1,p2,tol) == -CCW(p0,p2,p1,tol); repeated point => 0', bounds='IEEE binary16 arithmetic, |x| <= 64, any tol', targets=['utils.h CCW']),
  ],
}

PROPERTIES['C19'] = {
  'level_text': 'Bounded model checking of the tolerance floor: Impl::SetEpsilon for EVERY bit pattern of bounding box, tolerance and requested epsilon leaves tolerance >= epsilon, never lowers the tolerance, and epsilon is -1 or a finite value >= the request; MaxEpsilon equals max(request, kPrecision*scale) on finite boxes.',
  'level_note': 'Tolerance arithmetic only. Subdivision partitions (Partition::GetPartition/Reindex), surface preservation of Refine*, and the geometric guarantee of Simplify/SetTolerance are NOT covered by this check.',
  'obligations': [
    dict(name='set_epsilon_floor', harness='c19_tolerance.cpp', entry='h_set_epsilon', backends=['minisat', 'kissat'], timeout=600, unwind={'default': 4},
         claim='Impl::SetEpsilon: tolerance_ >= epsilon_, tolerance never decreases, epsilon_ is -1 or finite and >= minEpsilon', bounds='all 64-bit doubles incl. NaN/inf for box, tolerance, minEpsilon; both precisions flags', targets=['impl.cpp Manifold::Impl::SetEpsilon', 'shared.h MaxEpsilon', 'common.h Box::Scale']),
    dict(name='max_epsilon', harness='c19_tolerance.cpp', entry='h_max_epsilon', backends=['minisat', 'kissat'], timeout=600, unwind={'default': 4},
         claim='MaxEpsilon(minEps, box) == max(minEps, kPrecision*box.Scale()) for finite input', bounds='all finite doubles |x|<=1e100', targets=['shared.h MaxEpsilon']),
  ],
}

PROPERTIES['C01'] = {
  'level_text': 'Bounded model checking of single topological edit / compaction steps of the real code from an ARBITRARY halfedge structure satisfying the representation invariant (pairs are an involution joining opposite directed edges, no degenerate triangle, indices in range, tombstoned triangles consistent): RemoveIfFolded (with PairUp) and GatherFaces/ReindexFace preserve the invariant; GatherFaces yields the same mesh up to face renumbering. One inductive step from every invariant state covers histories of any length for these operations.',
  'level_note': 'Structure level, 4 triangles / 4 vertices. NOT covered: CollapseEdge/SwapEdge/DedupeEdge/SplitPinchedVerts as whole procedures, CreateHalfedges, Boolean face assembly, the triangulator, Subdivide, quickhull, level set; vertex referencedness and finiteness of the exported mesh.',
  'obligations': [
    dict(name='remove_if_folded', harness='c01_edgeops.cpp', entry='h_remove_if_folded', defs={'VF_T': 4, 'VF_V': 4}, backends=['minisat'], timeout=900, unwind={'default': 13},
         claim='Impl::RemoveIfFolded(edge) for every live edge of every invariant state (tombstones allowed) preserves the invariant and the array sizes', bounds='4 triangles (12 halfedges), 4 vertices, fully symbolic start/pair arrays', targets=['edge_op.cpp Impl::RemoveIfFolded, PairUp', 'shared.h Halfedges']),
    dict(name='ismanifold_gate', harness='c01_gate.cpp', entry='h_ismanifold_gate', defs={'VF_T': 4, 'VF_V': 4}, redirect={'_ZN8manifold8Manifold4Impl9MakeEmptyENS0_5ErrorE': 'vf_stub_MakeEmpty'}, backends=['minisat', 'kissat'], timeout=900, unwind={'default': 13}, recursion={'default': 2},
         claim='Impl::IsManifold() (the gate of the import constructor and of the library\'s own topology assertions) returns true exactly for the halfedge arrays in which every live halfedge belongs to a live triangle and is paired with the opposite directed edge which points back, start != end; whole-triangle tombstones allowed',
         bounds='4 triangles (12 halfedges), 4 vertices, every start in [-1,4) and pair in [-1,12)', targets=['properties.cpp Impl::IsManifold, CheckHalfedges', 'parallel.h all_of (Seq)', 'shared.h Halfedges']),
    dict(name='create_halfedges_t4', harness='c01_create.cpp', entry='h_create_halfedges', defs={'VF_T': 4, 'VF_V': 4}, models=['rbtree.h', 'stdlib.h'],
         unwind={'auto': True, 'start': 4, 'max': 16, 'rounds': 30}, recursion={'default': 2}, backends=['minisat', 'kissat'], timeout=2400, mem_gb=24, object_bits=12, tiers=['experimental'],
         cdefs=['VF_ALLOC_CLASSES=VF_C(12) VF_C(16) VF_C(24) VF_C(48) VF_C(96) VF_C(144) VF_C(192)'],
         claim='Impl::CreateHalfedges on ANY triangle list the import ladder lets through (indices in range, 3 distinct vertices per triangle, manifold or not): memory safe; every triangle survives verbatim or is tombstoned as a whole, and only together with an opposed duplicate; pair indices stay in [-1, n); a closed oriented manifold without opposed duplicates is paired so that IsManifold() accepts it and invariant I holds',
         bounds='4 triangles over 4 vertices, all index combinations; sequential branch, small-vertex-count (sorting) path', targets=['impl.cpp Impl::CreateHalfedges, PrepHalfedges', 'parallel.h stable_sort/sequence/for_each_n (Seq)', 'properties.cpp IsManifold']),
    dict(name='create_halfedges_t2', harness='c01_create.cpp', entry='h_create_halfedges', defs={'VF_T': 2, 'VF_V': 3}, models=['rbtree.h', 'stdlib.h'],
         unwind={'default': 8}, recursion={'default': 2}, backends=['minisat', 'kissat'], timeout=1800, mem_gb=24, object_bits=12, tiers=['experimental'], cbmc=['--slice-formula'],
         cdefs=['VF_ALLOC_CLASSES=VF_C(6) VF_C(8) VF_C(12) VF_C(16) VF_C(24) VF_C(48) VF_C(72) VF_C(96)'],
         claim='Impl::CreateHalfedges on any 2 triangles over 3 vertices: memory safe; every triangle survives verbatim or is tombstoned as a whole and only together with its opposed duplicate; pair indices in [-1, n)',
         bounds='2 triangles over 3 vertices, all index combinations; sequential branch, sorting path', targets=['impl.cpp Impl::CreateHalfedges, PrepHalfedges', 'parallel.h stable_sort/sequence/for_each_n (Seq)']),
    dict(name='collapse_tri', harness='c01_edgeops.cpp', entry='h_collapse_tri', defs={'VF_T': 4, 'VF_V': 4}, backends=['minisat'], timeout=900, unwind={'default': 13}, tiers=['experimental'],
         claim='Impl::CollapseTri on a triangle whose edge 0 has been collapsed (start==end, unpaired) re-pairs its two neighbours and restores the invariant', bounds='4 triangles, 4 vertices', targets=['edge_op.cpp Impl::CollapseTri, PairUp']),
    dict(name='gather_faces', harness='c01_sort.cpp', entry='h_gather_faces', defs={'VF_T': 4, 'VF_V': 4}, backends=['minisat'], timeout=900, unwind={'default': 13}, recursion={'default': 2},
         cdefs=['VF_ALLOC_CLASSES=VF_C(16) VF_C(48) VF_C(64) VF_C(96)'],
         claim='Impl::GatherFaces(faceNew2Old) for every face permutation: invariant preserved, starts copied, pairs mapped through the permutation, triRef permuted', bounds='4 triangles, 4 vertices, all 24 permutations', targets=['sort.cpp Impl::GatherFaces, ReindexFace, Permute', 'parallel.h scatter/gather/for_each_n(Seq)']),
  ],
}

_C08_OBL = dict(name='export_t3', harness='c08_export.cpp', entry='h_export', defs={'VF_T': 3, 'VF_V': 3, 'VF_M': 3}, models=['rbtree.h', 'stdlib.h'],
     unwind={'default': 4, 'h_export': 13, 'resize|fill|copy_m': 13}, recursion={'default': 2}, cbmc=['--slice-formula'], backends=['minisat'], timeout=1800, object_bits=12, mem_gb=24,
     cdefs=['VF_ALLOC_CLASSES=VF_C(1) VF_C(2) VF_C(4) VF_C(8) VF_C(12) VF_C(16) VF_C(24) VF_C(32) VF_C(36) VF_C(48) VF_C(64) VF_C(72) VF_C(96) VF_C(128) VF_C(192) VF_C(256) VF_C(288) VF_C(384) VF_C(512)'],
     claim='GetMeshGLImpl<double,uint64_t> on a derived (non-original) Impl with 3 triangles over 3 mesh instances: run table well formed (numRun+1 non-decreasing indices from 0 to 3*numTri, multiples of 3, runs with triangles sorted by originalID), every output triangle is exactly one source triangle and carries that triangle\'s vertex indices, its three halfedge tangents, its face ID, and sits in a run whose originalID / transform / backSide / hasNormals are those of its own mesh instance; positions exported verbatim',
     bounds='3 triangles, 3 vertices, 3 mesh instances with arbitrary originalIDs in 0..2, arbitrary finite transforms/tangents/positions, numProp = 0',
     targets=['impl.h GetMeshGLImpl', 'std::map find/erase/iteration (modelled tree)', 'std::stable_sort (real libstdc++ code)'])
PROPERTIES['C08'] = {
  'level_text': 'Bounded model checking of the real exporter GetMeshGLImpl on a small fully symbolic Impl: whatever the triangle-to-instance assignment, every output triangle is one source triangle that keeps ALL its per-triangle data (vertex indices, the three halfedge tangents, face ID) and sits in a run carrying its own instance\'s originalID, transform and flags. This is the mechanism behind "export and re-import is lossless" on the export side; it stands guard over the tangent-order defect repaired by commit 6a57741f.',
  'level_note': 'Export side only, numProp = 0, 3 triangles / 3 instances. The ingest side is covered up to CreateHalfedges by C09; DedupePropVerts/SortGeometry after it, property-vertex duplication with merge vectors, the 32-bit path, Merge() and the OBJ reader/writer are outside this check.',
  'obligations': [_C08_OBL, dict(_C08_OBL, name='export_t2_m2', defs={'VF_T': 2, 'VF_V': 3, 'VF_M': 2},
                                   bounds='2 triangles, 3 vertices, 2 mesh instances', claim='same at 2 triangles / 2 instances (cheaper second instantiation)')],
}
PROPERTIES['C08']['obligations'] += [dict(_C08_OBL, name='export_t2_m2_auto', defs={'VF_T': 2, 'VF_V': 3, 'VF_M': 2}, unwind={'auto': True, 'start': 3, 'max': 16, 'rounds': 30},
    backends=['minisat', 'kissat'], timeout=2400, tiers=['experimental'], bounds='2 triangles, 3 vertices, 2 mesh instances', claim='same at 2 triangles / 2 instances, loop bounds found by search')]
PROPERTIES['C07'] = {
  'level_text': 'Bounded model checking of the run table the exporter builds (the observable form of provenance): runs are contiguous, cover all triangles, are sorted by original ID, and each triangle\'s run names its own source instance (originalID, transform, back-side and normals flags) and its own face ID, for every assignment of triangles to instances.',
  'level_note': 'Run-table clause only (GetMeshGLImpl, numProp = 0, 3 triangles / 3 instances). MapTriRef/UpdateReference in the Boolean, CreateProperties/GetBarycentric interpolation, Transform composition and the geometric clause "triangle lies within tolerance of its source face" are outside this check.',
  'obligations': [dict(_C08_OBL, name='runtable_t3'), dict(_C08_OBL, name='runtable_t2_m2', defs={'VF_T': 2, 'VF_V': 3, 'VF_M': 2}, bounds='2 triangles, 3 vertices, 2 mesh instances', claim='same at 2 triangles / 2 instances')],
}

_C18_REDIR = {'_ZN8manifold8Manifold4Impl9MakeEmptyENS0_5ErrorE': 'vf_stub_MakeEmpty'}
PROPERTIES['C18'] = {
  'level_text': 'Bounded model checking of the query kernels against brute-force definitions written in the harness: CalculateBBox is the tight box of the non-NaN vertices for every vertex set (NaN-tombstoned vertices ignored, empty when none is finite), IsFinite is true exactly when every coordinate is finite for every bit pattern, IsIndexInBounds is the conjunction of per-index range tests for every int, the counting accessors follow from the array sizes.',
  'level_note': 'Query kernels only. Volume/Area sums, MinGap / triangle distance, RayCast / WindingNumber (Kernel12/Kernel02 with zero perturbation), Slice, Project, Decompose and Genus are outside this check. 3 vertices / 2 triangles; reduce runs its sequential branch here (the parallel reduction trees are covered under C13 for operators with an identity).',
  'obligations': [
    dict(name='bbox_tight', harness='c18_measure.cpp', entry='h_bbox', redirect=_C18_REDIR, backends=['minisat'], timeout=600, unwind={'default': 5}, recursion={'default': 2},
         claim='Impl::CalculateBBox: min/max of the non-NaN vertices exactly; no finite vertex => MakeEmpty(NoError) is requested', bounds='3 vertices, each either NaN-tombstoned or arbitrary finite doubles |x|<=1e300', targets=['properties.cpp Impl::CalculateBBox', 'parallel.h reduce (Seq)', 'common.h Box::IsFinite']),
    dict(name='isfinite', harness='c18_measure.cpp', entry='h_isfinite', redirect=_C18_REDIR, backends=['minisat'], timeout=600, unwind={'default': 5}, recursion={'default': 2},
         claim='Impl::IsFinite() <=> every coordinate of every vertex is finite', bounds='3 vertices, all 64-bit patterns', targets=['properties.cpp Impl::IsFinite']),
    dict(name='index_in_bounds_counts', harness='c18_measure.cpp', entry='h_index_in_bounds', redirect=_C18_REDIR, backends=['minisat'], timeout=600, unwind={'default': 9}, recursion={'default': 2},
         claim='Impl::IsIndexInBounds(triVerts) <=> every index in [0, NumVert); NumTri/NumEdge/NumVert/NumPropVert/IsEmpty follow the array sizes', bounds='2 triangles, all int indices', targets=['properties.cpp Impl::IsIndexInBounds', 'impl.h counting accessors']),
  ],
}
# the progress-counter protocol is a C06 matter as much as a C15 one (polled from another thread at any time)
PROPERTIES['C06']['obligations'] += [dict(o) for o in PROPERTIES['C15']['obligations'] if o['name'] in ('progress_vs_reset', 'reset_order')]
_FW = [  # (define, wrapper, C++ method, mangled pattern, stub)
  (1, 'manifold_translate', 'Manifold::Translate(vec3)', r'_ZNK8manifold8Manifold9TranslateEN6linalg3vecIdLi3EEE', 'vf_stub_V3'),
  (2, 'manifold_scale', 'Manifold::Scale(vec3)', r'_ZNK8manifold8Manifold5ScaleEN6linalg3vecIdLi3EEE', 'vf_stub_V3'),
  (3, 'manifold_mirror', 'Manifold::Mirror(vec3)', r'_ZNK8manifold8Manifold6MirrorEN6linalg3vecIdLi3EEE', 'vf_stub_V3'),
  (4, 'manifold_rotate', 'Manifold::Rotate(double,double,double)', r'_ZNK8manifold8Manifold6RotateEddd', 'vf_stub_DDD'),
  (5, 'manifold_transform', 'Manifold::Transform(mat3x4) (12 scalars, column-major)', r'_ZNK8manifold8Manifold9TransformERKN6linalg3matIdLi3ELi4EEE', 'vf_stub_M34'),
  (6, 'manifold_trim_by_plane', 'Manifold::TrimByPlane(vec3,double)', r'_ZNK8manifold8Manifold11TrimByPlaneEN6linalg3vecIdLi3EEEd', 'vf_stub_V3D'),
  (7, 'manifold_smooth_out', 'Manifold::SmoothOut(double,double)', r'_ZNK8manifold8Manifold9SmoothOutEdd', 'vf_stub_DD'),
  (8, 'manifold_refine_to_length', 'Manifold::RefineToLength(double)', r'_ZNK8manifold8Manifold14RefineToLengthEd', 'vf_stub_D'),
  (9, 'manifold_refine_to_tolerance', 'Manifold::RefineToTolerance(double)', r'_ZNK8manifold8Manifold17RefineToToleranceEd', 'vf_stub_D'),
  (10, 'manifold_set_tolerance', 'Manifold::SetTolerance(double)', r'_ZNK8manifold8Manifold12SetToleranceEd', 'vf_stub_D'),
  (11, 'manifold_simplify', 'Manifold::Simplify(double)', r'_ZNK8manifold8Manifold8SimplifyEd', 'vf_stub_D'),
  (12, 'manifold_refine', 'Manifold::Refine(int)', r'_ZNK8manifold8Manifold6RefineEi', 'vf_stub_I'),
  (13, 'manifold_boolean', 'Manifold::Boolean(const Manifold&, OpType) incl. the ManifoldOpType mapping', r'_ZNK8manifold8Manifold7BooleanERKS0_NS_6OpTypeE', 'vf_stub_MO'),
  (14, 'manifold_min_gap', 'Manifold::MinGap(const Manifold&, double)', r'_ZNK8manifold8Manifold6MinGapERKS0_d', 'vf_stub_MD'),
]
PROPERTIES['C20']['obligations'] += [
    dict(name='fw_' + w[len('manifold_'):], harness='c20_forward.cpp', entry='h_fw', defs={'VF_W': k},
         redirect={pat + '$': stub, r'_ZN8manifold8ManifoldC[12]ERKS0_$': 'vf_stub_copy', r'_ZN8manifold8ManifoldD[12]Ev$': 'vf_stub_dtor'},
         backends=['minisat'], timeout=300, unwind={'default': 13},
         claim='%s forwards to %s: called exactly once on the object passed in, every argument bit-identical and in order, result copy-constructed at the caller\'s address from the method\'s return value, the temporary destroyed exactly once, handle returned = mem' % (w, m),
         bounds='all argument values (every 64-bit pattern of each double, every int); the C++ method, Manifold copy constructor and destructor are recording stubs (they live in manifold.cpp)',
         targets=['bindings/c/manifoldc.cpp ' + w, 'bindings/c/conv.cpp from_c/to_c'])
    for k, w, m, pat, stub in _FW]
_FWCS = [
  (1, 'manifold_cross_section_translate', 'CrossSection::Translate(vec2)', r'_ZNK8manifold12CrossSection9TranslateEN6linalg3vecIdLi2EEE', 'vf_stub_V2'),
  (2, 'manifold_cross_section_scale', 'CrossSection::Scale(vec2)', r'_ZNK8manifold12CrossSection5ScaleEN6linalg3vecIdLi2EEE', 'vf_stub_V2'),
  (3, 'manifold_cross_section_mirror', 'CrossSection::Mirror(vec2)', r'_ZNK8manifold12CrossSection6MirrorEN6linalg3vecIdLi2EEE', 'vf_stub_V2'),
  (4, 'manifold_cross_section_rotate', 'CrossSection::Rotate(double)', r'_ZNK8manifold12CrossSection6RotateEd', 'vf_stub_D'),
  (5, 'manifold_cross_section_simplify', 'CrossSection::Simplify(double)', r'_ZNK8manifold12CrossSection8SimplifyEd', 'vf_stub_D'),
  (6, 'manifold_cross_section_transform', 'CrossSection::Transform(mat2x3) (6 scalars, column-major)', r'_ZNK8manifold12CrossSection9TransformERKN6linalg3matIdLi2ELi3EEE', 'vf_stub_M23'),
  (7, 'manifold_cross_section_offset', 'CrossSection::Offset(delta, JoinType, miter_limit, circular_segments) incl. the ManifoldJoinType mapping', r'_ZNK8manifold12CrossSection6OffsetEdNS_8JoinTypeEdi', 'vf_stub_OFF'),
  (8, 'manifold_cross_section_boolean', 'CrossSection::Boolean(const CrossSection&, OpType) incl. the ManifoldOpType mapping', r'_ZNK8manifold12CrossSection7BooleanERKS0_NS_6OpTypeE', 'vf_stub_CO'),
]
PROPERTIES['C20']['obligations'] += [
    dict(name='fwcs_' + w[len('manifold_cross_section_'):], harness='c20_forward_cs.cpp', entry='h_fw', defs={'VF_W': k},
         redirect={pat + '$': stub, r'_ZN8manifold12CrossSectionC[12]ERKS0_$': 'vf_stub_copy', r'_ZN8manifold12CrossSectionD[12]Ev$': 'vf_stub_dtor'},
         backends=['minisat'], timeout=300, unwind={'default': 13},
         claim='%s forwards to %s: called exactly once on the object passed in, every argument bit-identical and in order, result copy-constructed at the caller\'s address from the method\'s return value, the temporary destroyed exactly once, handle returned = mem' % (w, m),
         bounds='all argument values (every 64-bit pattern of each double, every int, every enum value); the C++ method, CrossSection copy constructor and destructor are recording stubs (they live in cross_section.cpp)',
         targets=['bindings/c/cross.cpp ' + w, 'bindings/c/conv.cpp from_c/to_c'])
    for k, w, m, pat, stub in _FWCS]
PROPERTIES['C19']['obligations'] += [
    dict(name='compose_tolerance_floor', harness='c19_compose.cpp', entry='h_compose', models=['stdlib.h', 'rbtree.h', 'pthread.h'],
         redirect={'_ZN8manifold3VecIiLb1EE13resize_nofillEm': 'vf_stub_resize_nofill'},
         unwind={'default': 3}, recursion={'default': 2}, backends=['minisat', 'kissat'], timeout=1500, mem_gb=30, object_bits=12,
         tiers=['quick', 'thorough'],
         claim='CsgLeafNode::Compose (disjoint-union fast path) on two children with arbitrary bounding boxes and kPrecision*scale <= epsilon <= tolerance, the first with a pending axis-aligned scale (any sign and magnitude) + translation, the second without: the combined Impl handed on satisfies tolerance >= epsilon (the invariant SetTolerance, Simplify and every later SetEpsilon floor rely on)',
         bounds='2 children with EMPTY meshes; the path ends at the first array sizing of the combined Impl (redirected Vec<int>::resize_nofill), i.e. after the complete epsilon/tolerance/bounding-box bookkeeping and before the copy machinery, which never writes those fields again, all values finite |x| <= 64, full IEEE double arithmetic; std::mutex by a sequential lock model',
         targets=['csg_tree.cpp CsgLeafNode::Compose, CsgLeafNode::GetBoundingBox', 'common.h Box::Transform, Box::Scale, Box::Union'])
]
PROPERTIES['C19']['obligations'] += [
    dict(name='boolean_tolerance_%s' % op.lower(), harness='c19_boolean.cpp', entry='h_boolean_tolerance', defs={'VF_OP': op},
         models=['rbtree.h', 'stdlib.h', 'hash_pmr.h'],
         redirect={'_ZN8manifold14ManifoldParamsEv': 'vf_stub_ManifoldParams', '_ZN8manifold8Manifold4Impl8Face2TriE.*': 'vf_stub_Face2Tri'},
         unwind={'auto': True, 'start': 4, 'max': 32, 'rounds': 24}, recursion={'default': 3}, object_bits=13,
         backends=['minisat', 'kissat'], timeout=2400, mem_gb=30, tiers=['experimental'],
         claim='Boolean3::Result(%s): the output Impl handed to Face2Tri has epsilon >= both operands\' epsilon, tolerance >= both operands\' tolerance and tolerance >= epsilon, for every operand epsilon/tolerance with epsilon <= tolerance' % op,
         bounds='one concrete operand pair (two closed 2-triangle meshes with disjoint boxes: no intersections, the real pipeline from inclusion numbers to Append*Edges runs on concrete data); symbolic: epsilon_ and tolerance_ of both operands (all finite doubles)',
         targets=['boolean_result.cpp Boolean3::Result (up to Face2Tri), SizeOutput, AppendWholeEdges, DuplicateVerts', 'boolean3.cpp Boolean3::Boolean3 (no-overlap early out)'])
    for op in ('Add', 'Subtract')
]
PROPERTIES['C14']['obligations'] += [
    dict(name='e2e_box_inf_n3', harness='c14_collider.cpp', entry='h_e2e_box_inf', defs={'VF_N': 3},
         unwind={'default': 8}, backends=['minisat', 'kissat'], timeout=2400,
         claim='Collider + Collisions with an UNBOUNDED query box (any coordinate may be +-infinity, as MinGap with an infinite search length, half-space and whole-space queries produce): exactly the leaves the closed-interval test accepts are reported, each once; only an empty box may be skipped',
         bounds='N=3 finite leaf boxes |x|<=1e100 (min<=max not assumed), all sorted Morton arrays, query coordinates any non-NaN double including +-infinity', targets=['collider_internal::FindCollision (early exit for empty boxes)', 'Box::DoesOverlap(Box)', 'Collider::Collider'])
]
PROPERTIES['C14']['obligations'] += [
    dict(name='tree2d_query_n%d' % n, harness='c14_tree2d.cpp', entry='h_query', defs={'VF_N': n},
         unwind={'auto': True, 'start': 3, 'max': 80, 'rounds': 24}, recursion={'default': 4}, backends=['minisat', 'kissat'], timeout=3000,
         tiers=['quick', 'thorough'] if n == 9 else ['thorough'],
         claim='QueryTwoDTree on ANY point array satisfying the k-d tree invariant (middle element splits by x / y alternately, ties with the split value on either side) and ANY rectangle: the callback is invoked exactly once for every point inside the closed rectangle and never for another one',
         bounds='%d points (%d tree level%s above the linearly scanned leaves of <= 8 points), all finite doubles |x|<=1e100 for points and rectangle (min<=max not assumed)' % (n, 1 if n < 19 else 2, '' if n < 19 else 's'),
         targets=['tree2d.h QueryTwoDTree', 'common.h Rect::Contains, Rect::DoesOverlap'])
    for n in (9, 19)
] + [
    dict(name='tree2d_build_n9', harness='c14_tree2d.cpp', entry='h_build', defs={'VF_N': 9}, models=['stdlib.h'],
         unwind={'auto': True, 'default': 11}, recursion={'default': 4}, backends=['minisat', 'kissat'], timeout=1800, tiers=['experimental'],
         claim='BuildTwoDTree establishes the invariant the query obligation assumes (so the two compose) and only permutes the points',
         bounds='9 points on the lattice [-2,2]^2 (many ties with the median); sequential stable_sort (std::stable_sort)',
         targets=['tree2d.cpp BuildTwoDTree, BuildTwoDTreeImpl', 'parallel.h stable_sort (Seq)'])
]
PROPERTIES['C18']['obligations'] += [
    dict(name='box_spec', harness='c18_box.cpp', entry='h_box_spec', real='f16', defs={'VF_BND': 1024}, backends=['minisat', 'kissat'], timeout=900, unwind={'default': 4},
         claim='struct Box against its set-theoretic definition written independently: Contains(point), DoesOverlap(point) (xy-projected, as documented), Contains(box), DoesOverlap(box) (closed intervals, symmetric), Union(box), Union(point), two-corner constructor, Size, Scale, operator==',
         bounds='all binary16 values |x| <= 1024 for both boxes and the point (order comparisons, min/max and one subtraction: independent of the format); min <= max NOT assumed', targets=['common.h Box']),
    dict(name='box_finite_empty', harness='c18_box.cpp', entry='h_box_finite', backends=['minisat'], timeout=600, unwind={'default': 4},
         claim='Box::IsFinite for every bit pattern; the default Box is empty (contains no point) and is the identity of Union', bounds='all 64-bit patterns / all finite doubles', targets=['common.h Box::IsFinite, Box()']),
    dict(name='rect_spec', harness='c18_box.cpp', entry='h_rect_spec', real='f16', defs={'VF_BND': 1024}, backends=['minisat', 'kissat'], timeout=900, unwind={'default': 4},
         claim='struct Rect against its set-theoretic definition: Contains(point), Contains(rect), DoesOverlap (closed, symmetric), Union, Size, IsEmpty', bounds='all binary16 values |x| <= 1024', targets=['common.h Rect']),
]
PROPERTIES['C18']['obligations'] += [
    dict(name='raycast_axis%d' % ax, harness='c18_raycast.cpp', entry='h_raycast', defs={'VF_AXIS': ax, 'VF_R': 2, 'VF_CONCRETE_TRI': 1}, real='f16',
         models=['stdlib.h'], unwind={'default': 14, 'FindCollision': 3, 'realloc_insert|insertion_sort|introsort': 3, 'RadixTree|RangeEnd|FindSplit': 8}, recursion={'default': 2}, backends=['kissat', 'minisat'], timeout=2400, mem_gb=24, object_bits=12,
         tiers=['experimental'],
         claim='Impl::RayCast on a surface triangle (real Collider, Kernel12<false,true>, t filter, sort): every returned hit names the triangle, has 0<=t<=1 and a position on the segment; in general position (no exact 3D or projected coincidence) there is exactly one hit iff the exact integer orientation tests say the segment properly crosses the triangle, and none otherwise - for both directions of travel',
         bounds='one CONCRETE triangle in general position ((2,-2,-1),(-1,2,-2),(-2,-1,2), coordinate roles rotated with the axis; zero normals: they only break exact ties), SYMBOLIC segment parallel to axis %d with both ends on the lattice line in [-3,3]; IEEE binary16 arithmetic inside the kernels (rationals met here are separated by >= 1/4)' % ax,
         targets=['boolean3.cpp Impl::RayCast, Kernel12, Kernel11, Kernel02, Shadow01', 'shared.h Intersect, Interpolate, Shadows', 'collider.h Collider, FindCollision'])
    for ax in (0, 1, 2)]
PROPERTIES['C10']['obligations'] += [
    dict(name='isconvex_gate_n%d' % n, harness='c10_convex.cpp', entry='h_isconvex', defs={'VF_LEN': n, 'VF_R': 2}, real='f16', models=['stdlib.h'],
         unwind={'default': n + 2}, recursion={'default': 2}, backends=['minisat', 'kissat'], timeout=2400, object_bits=12,
         cdefs=['VF_ALLOC_CLASSES=VF_C(24) VF_C(48) VF_C(96) VF_C(192)'],
         tiers=['quick', 'thorough'] if n == 4 else ['thorough'],
         claim='IsConvex(polygon, eps) == true implies no reflex vertex (exact integer orientation >= 0 at every vertex) and no zero-length edge, for every lattice polygon whose vertices are not all one point (repeated points included): only then is the zig-zag TriangulateConvex fast path admissible',
         bounds='%d lattice vertices in [-2,2]^2, any eps in [0,4]; IEEE binary16 arithmetic for normalize/determinant' % n, targets=['polygon.cpp IsConvex', 'linalg normalize, determinant2x2'])
    for n in (4, 5)]
PROPERTIES['C10']['obligations'] += [
    dict(name='ear_isshort', harness='c10_ear.cpp', entry='h_isshort', real='f32', models=['stdlib.h'], backends=['minisat', 'kissat'], timeout=1200, unwind={'default': 3}, recursion={'default': 2},
         claim='EarClip::Vert::IsShort(eps) - the only ear-clipping path without a convexity or containment test - implies CCW(left, pos, right, eps) >= 0 (the emitted triangle is never clockwise beyond the tolerance) and is exactly "outgoing edge shorter than eps/2"',
         bounds='three vertices on the quarter lattice in [-2,2]^2, eps a multiple of 1/8 in (0,4]; binary32 arithmetic, in which every product met on this lattice is exact (so the verdict is that of double arithmetic)', targets=['polygon.cpp EarClip::Vert::IsShort', 'utils.h CCW'])
]
PROPERTIES['C10']['level_text'] = 'Bounded model checking of the predicates the triangulator and its convex fast path are built on: CCW with zero tolerance equals the sign of the exact integer determinant on a lattice and is antisymmetric for every tolerance; IsConvex, the gate of the zig-zag fast path, only accepts lattice polygons without a reflex vertex and without zero-length edges; the ear clipper\'s IsShort (its only unchecked clipping path) implies that the clipped triangle is not clockwise beyond the tolerance.'
PROPERTIES['C10']['level_note'] = 'Predicates only (CCW, IsConvex, EarClip::Vert::IsShort). Ear clipping, keyholing, HalfedgeTriangulation pairing, TriangulateConvex itself, termination and independence from triangulator reuse are NOT covered (std::multiset/linked-list state of the ear clipper is outside what the encoder reaches at a useful size).'

# ---- level texts: additions of round 2 (kept at the end so that the tables above stay readable)
PROPERTIES['C01']['level_text'] += ' Impl::IsManifold(), the gate of the import constructor, accepts exactly the halfedge arrays an independently written specification accepts.'
PROPERTIES['C02']['level_text'] += ' Kernel11 is invariant under doubling every vertex and face normal of both operands (the perturbation is a direction), decided on concrete exact-tie configurations with all normals symbolic.'
PROPERTIES['C02']['level_note'] = PROPERTIES['C02']['level_note'].replace('Kernel level only:', 'Kernel level only (Kernel12 and the RayCast/PointWinding queries built on it do not decide, see C18):')
PROPERTIES['C06']['level_text'] += ' The progress counters: the real ExecutionContext::Progress() polled while another thread resets the context for reuse stays in [0,1], and ResetForStaticFactory only passes through the counter states that argument relies on.'
PROPERTIES['C09']['level_text'] += ' On the success path the state handed to CreateHalfedges satisfies the contract the rest of the library relies on without re-validating (TriRef / meshID / index / property-row consistency, tangents aligned with the kept triangles, hasNormals only with >= 3 property channels); three defects were found and repaired through these obligations.'
PROPERTIES['C09']['level_note'] = PROPERTIES['C09']['level_note'].replace('Everything from CreateHalfedges on is cut (the success path ends there);', 'Everything from CreateHalfedges on is cut or, in the handoff obligations, replaced by a stub asserting the handoff contract;')
PROPERTIES['C13']['level_text'] += ' unique() is additionally decided with its internal chunk size lowered to 2 through a second hook, so that runs of equal values straddle chunk boundaries (n <= 5).'
PROPERTIES['C14']['level_text'] += ' The polygon k-d tree: QueryTwoDTree on ANY array satisfying the tree invariant and ANY rectangle visits exactly the points of the closed rectangle, once each (9 points quick, 19 thorough).'
PROPERTIES['C14']['level_note'] += ' The k-d tree invariant itself (what BuildTwoDTree leaves) is assumed, its obligation does not decide. The 2D edge-pair BVH of boolean2.cpp is outside.'
PROPERTIES['C15']['level_text'] += ' The real Progress() is also decided with a concurrent resetting writer interleaved between its atomic loads.'
PROPERTIES['C19']['level_text'] += ' CsgLeafNode::Compose (disjoint union of children with pending transforms) hands on tolerance >= epsilon; a defect there was found and repaired through this obligation.'
PROPERTIES['C19']['level_note'] += ' Propagation through Boolean3::Result is written as an obligation but does not decide (memory).'

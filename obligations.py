# Obligation tables: one entry per solver query family.  See DESIGN.md.
PROPERTIES = {}

def _flat(xs):
    out = []
    for x in xs:
        if isinstance(x, list): out += x
        else: out.append(x)
    return out

PROPERTIES['C14'] = {
  'level_text': 'Bounded model checking of the real collider code: for every sorted Morton array and every finite box set at N<=3..4 leaves the BVH build and traversal report exactly the overlapping leaves. Right level because the defects here are index/tie-break shapes (equal codes, degenerate boxes) that a solver enumerates symbolically and tests only sample.',
  'level_note': 'Bounds: N<=4 leaves (quick: tree N=4, end-to-end N=3). Sequential policy only (parallel scheduling of for_each_n is covered under C13). Larger trees, NaN boxes, Collider::Transform are outside this check. Trusted: clang IR, ir2c translation, cbmc.',
  'assumptions': ['Morton codes are sorted (every caller sorts leaves by Morton code before building the Collider)',
                  'box coordinates are finite doubles with |x| <= 1e100 (NaN/inf boxes are outside the claim)'],
  'obligations': [
    dict(name='radix_tree_n4', harness='c14_collider.cpp', entry='h_radix', defs={'VF_N': 4},
         unwind={'default': 12}, backends=['minisat'], timeout=600, tiers=['quick', 'thorough'],
         claim='CreateRadixTree on every sorted array of 4 32-bit Morton codes (incl. duplicates): every non-root node has one internal parent, children point back, every leaf reaches the root, node i covers a contiguous leaf range containing i and its children split it; no clz(0), no out-of-range index',
         bounds='N=4 leaves, all 2^128 code arrays subject to sortedness',
         targets=['collider_internal::CreateRadixTree::{operator(),RangeEnd,FindSplit,PrefixLength}']),
    dict(name='e2e_box_n3', harness='c14_collider.cpp', entry='h_e2e_box', defs={'VF_N': 3},
         unwind={'default': 8}, backends=['minisat','kissat'], timeout=900, tiers=['quick', 'thorough'],
         claim='Collider(leafBB, leafMorton) followed by Collisions(one Box query): the recorder is called exactly once for leaf i iff the closed-interval overlap test (independent oracle in the harness) holds, never for another index; root box contains every leaf box',
         bounds='N=3 leaves, all finite doubles |x|<=1e100 for every box coordinate (min<=max NOT assumed), all sorted Morton arrays',
         targets=['Collider::Collider', 'Collider::UpdateBoxes', 'collider_internal::BuildInternalBoxes', 'collider_internal::FindCollision', 'Box::Union', 'Box::DoesOverlap(Box)', 'for_each_n(Seq)', 'AtomicAdd']),
    dict(name='e2e_point_n3', harness='c14_collider.cpp', entry='h_e2e_point', defs={'VF_N': 3},
         unwind={'default': 8}, backends=['minisat','kissat'], timeout=900, tiers=['quick', 'thorough'],
         claim='same with a vec3 query: recorded iff the point projects into the XY extent of the leaf box (closed)',
         bounds='N=3 leaves, all finite doubles', targets=['collider_internal::FindCollision<vec3 query>', 'Box::DoesOverlap(vec3)']),
  ],
}

def _c13(name, entry, claim, n=4, thr=2, unwind=None, lens=None, **kw):
    if lens is not None:
        out = []
        for L in lens:
            o = _c13('%s_len%d' % (name, L), entry, claim + ' [length = %d]' % L, n=n, thr=thr, unwind=unwind, **kw)
            o['defs']['VF_LEN'] = L; out.append(o)
        return out
    d = dict(name=name, harness='c13_parallel.cpp', entry=entry, par=True,
             defs={'VF_N': n, 'MANIFOLD_VERIF_SEQ_THRESHOLD': thr},
             unwind=unwind or {'default': n + 1}, backends=['minisat'], timeout=600,
             claim=claim, bounds='n <= %d elements (symbolic length incl. 0), values in a small range; TBB model: <=3 chunks, all split points / chunk orders / body assignments / join orders; kSeqThreshold hook = %d' % (n, thr),
             targets=['src/parallel.h'])
    d.update(kw); return d

PROPERTIES['C13'] = {
  'level_text': 'Bounded model checking of the real src/parallel.h Par branches against a nondeterministic protocol model of TBB: outputs and returned iterators equal a hand-written sequential oracle for every input of length <= 4 and every schedule the model allows (<=3 chunks). Right level: schedule-dependent defects (scan body protocol, merge pivots, radix buffer parity) need all schedules, which a solver covers and a run samples.',
  'level_note': 'Bounds: n<=4, <=3 chunks per parallel call, 2 modelled worker slots; kSeqThreshold lowered to 2 through the MANIFOLD_VERIF hook. The TBB model (models/include/tbb/vf_tbb.h) is trusted to over-approximate oneTBB. Lock-free containers: sequential spec only in this check (interference steps listed in evidence when present).',
  'obligations': _flat([
    _c13('exscan_abssum', 'h_exscan_abssum', 'exclusive_scan(Par) with the repo-style AbsSum operator == sequential exclusive scan; input untouched'),
    _c13('exscan_abssum_inplace', 'h_exscan_abssum_inplace', 'exclusive_scan(Par) in place (d_first == first), as CreateHalfedges/CompactProps call it'),
    _c13('exscan_lastnz', 'h_exscan_lastnz', 'exclusive_scan(Par) with an associative NON-commutative operator (operand order in reverse_join matters)'),
    _c13('incscan', 'h_incscan', 'inclusive_scan(Par) (lambda form of parallel_scan), distinct and in-place buffers'),
    _c13('copy_if', 'h_copy_if', 'copy_if(Par): kept elements in order, returned iterator, nothing written past the end'),
    _c13('remove_if', 'h_remove_if', 'remove_if(Par) == std::remove_if prefix and returned iterator'),
    _c13('remove', 'h_remove', 'remove(Par) == std::remove', lens=[1, 2, 3, 4]),
    _c13('unique', 'h_unique', 'unique(Par) (CopyIfScanBody with the i/i+1 offset trick) == std::unique'),
    _c13('elementwise', 'h_elementwise', 'for_each/transform/copy/fill/sequence(Par): every index exactly once, nothing outside [first,last)'),
    _c13('gather_scatter', 'h_gather_scatter', 'gather/scatter(Par) through an arbitrary permutation map'),
    _c13('reduce_plus_max', 'h_reduce', 'reduce(plus), reduce(max), transform_reduce (Par) == sequential fold for every reduction tree', lens=[1, 2, 3, 4]),
    _c13('count_all', 'h_count_all', 'count_if, all_of (Par) == sequential definition for every reduction tree'),
    _c13('merge_sort', 'h_merge_sort', 'stable_sort(Par, comp) = mergeSortRec/mergeRec: sorted AND stable (tags of equal keys keep input order) for every parallel_invoke order', lens=[2, 3, 4], unwind={'default': 6}, recursion={'mergeRec|mergeSortRec': 4}),
    _c13('radix_sort', 'h_radix_sort', 'stable_sort(Par) on uint32 = radix_sort/SortedRange/LSB_radix_sort/mergeRec: sorted permutation for every reduce tree and split timing', n=3, lens=[2, 3], unwind={'default': 5, 'Hist|histogram|prefixSum': 257}, recursion={'mergeRec|mergeSortRec': 4}),
  ]),
}

_INGEST_CUTS = ['_ZN8manifold8Manifold4Impl15CreateHalfedges.*']
_INGEST_REDIR = {'_ZN8manifold8Manifold4Impl10ReserveIDsEj': 'vf_stub_ReserveIDs'}
PROPERTIES['C09'] = {
  'level_text': 'Bounded model checking of the real MeshGL ingest ladder on arbitrary input structures: for every MeshGL64/MeshGL whose vectors have length <= the bound and arbitrary contents, the constructor performs no out-of-bounds access, division by zero, signed overflow, out-of-range float->int conversion or throw before handing over to halfedge construction, and early returns are empty with an error status. Right level: malformed-input defects are single unvalidated index/length relations, which the solver finds by construction.',
  'level_note': 'Bounds: vertProperties<=12, triVerts<=12, other vectors<=3..12 entries, all contents arbitrary. Everything from CreateHalfedges on is cut (the success path ends there); ReserveIDs returns an arbitrary id; std::map via models/rbtree.h (unbalanced BST). Allocation failure is out of scope.',
  'obligations': [
    dict(name='ingest64', harness='c09_ingest.cpp', entry='h_ingest64', cuts=_INGEST_CUTS, redirect=_INGEST_REDIR, models=['rbtree.h'],
         unwind={'default': 13}, backends=['minisat'], timeout=900, object_bits=12,
         claim='Impl::Impl(MeshGL64) up to the call of CreateHalfedges: memory safe, no div-by-zero / overflow / throw for every field content; error returns are empty',
         bounds='vertProperties<=12 doubles, triVerts<=12, mergeFrom/To, runIndex, runOriginalID, runFlags<=3, runTransform<=12, faceID<=4, halfedgeTangent<=8, numProp and tolerance arbitrary',
         targets=['Manifold::Impl::Impl<double,uint64_t>(MeshGLP)', 'MeshGLP::NumVert/NumTri/Backside/HasNormals', 'Manifold::Impl::MakeEmpty', 'Vec<T>', 'std::map insert (modelled tree)']),
    dict(name='ingest32', harness='c09_ingest.cpp', entry='h_ingest32', cuts=_INGEST_CUTS, redirect=_INGEST_REDIR, models=['rbtree.h'],
         unwind={'default': 13}, backends=['minisat'], timeout=900, object_bits=12,
         claim='same for the 32-bit MeshGL instantiation', bounds='as ingest64 with float / uint32_t fields',
         targets=['Manifold::Impl::Impl<float,uint32_t>(MeshGLP)']),
  ],
}

PROPERTIES['C11'] = {
  'level_text': 'Bounded model checking of the leaf predicates the 2D sweep rests on (comparators keying std::map/sort, fill rules, exact vertex-on-edge test): decided for all doubles / all int64 / a small lattice. This is the level where a solver is decisive; the sweep itself is outside reach.',
  'level_note': 'Only leaf predicates of boolean2_sweep.cpp and shared.h; the arrangement sweep, winding pass, OutEdgesToPolygons and MergeVerts are NOT covered (DESIGN.md C11 outside). NaN coordinates excluded (AllFinite guards the entry).',
  'obligations': [
    dict(name='lexless', harness='c11_pred.cpp', entry='h_lexless', backends=['minisat'], timeout=300, unwind={'default': 2},
         claim='LexLess is irreflexive, asymmetric, transitive, total on non-NaN points and equals the x-then-y definition', bounds='all finite doubles |x|<=1e100', targets=['boolean2_sweep.cpp LexLess']),
    dict(name='pairlexless', harness='c11_pred.cpp', entry='h_pairlexless', backends=['minisat'], timeout=300, unwind={'default': 2},
         claim='PairLexLess (key order of PolySet2) is a strict total order on pairs of non-NaN points', bounds='all finite doubles', targets=['boolean2_sweep.cpp PairLexLess']),
    dict(name='isinside', harness='c11_pred.cpp', entry='h_isinside', backends=['minisat'], timeout=300, unwind={'default': 2},
         claim='IsInside: Add <=> w>0, Intersect <=> w>1, EvenOdd <=> w odd, including negative windings', bounds='all int64 w', targets=['boolean2_sweep.cpp IsInside']),
    dict(name='oninterior', harness='c11_pred.cpp', entry='h_oninterior', backends=['minisat', 'kissat'], timeout=600, unwind={'default': 2}, defs={'VF_R': 4},
         claim='OnInterior never reports a point that is not exactly on the open segment (integer cross product, strict betweenness) and reports every such point for axis-aligned segments', bounds='integer lattice [-4,4]^2 for v,a,b (double arithmetic of the real Interpolate kernel)', targets=['boolean2_sweep.cpp OnInterior, YAtX', 'shared.h Interpolate']),
  ],
}

PROPERTIES['C02'] = {
  'level_text': 'Bounded model checking of the real symbolic-perturbation kernels: Shadows is a perturbed strict order for all doubles; Kernel02 (with Shadow01, Interpolate) satisfies every internal contract the library asserts in debug builds (Interpolate domain, k==2 before the second Interpolate, vector bounds) plus |s02|<=1 for ALL finite operand coordinates and normals and every vertex numbering. This is the layer where operand-pose-specific branch bugs live.',
  'level_note': 'Kernel level only: inclusion arithmetic, winding flood fill and face assembly of boolean_result.cpp are outside the claim. Quick tier decides Kernel02 at IEEE half precision (|x|<=1024); thorough at double (|x|<=1e100).',
  'obligations': [
    dict(name='shadows', harness='c02_kernels.cpp', entry='h_shadows', backends=['minisat'], timeout=300, unwind={'default': 2},
         claim='Shadows(p,q,d) xor Shadows(q,p,-d) unless p==q and d==0; withSign', bounds='all finite doubles', targets=['shared.h Shadows, withSign']),
    dict(name='k02_tt_f16', harness='c02_kernels.cpp', entry='h_k02_tt', real='f16', defs={'VF_BND': 1024}, backends=['kissat', 'minisat'], timeout=900, unwind={'default': 4}, tiers=['quick', 'thorough'],
         claim='Kernel02<expandP=true,forward=true>: all harvested library assertions + |s02|<=1 + z02 not NaN when s02!=0', bounds='IEEE binary16 arithmetic, |x|<=1024, arbitrary finite normals, all 6 vertex numberings',
         targets=['boolean3.cpp Kernel02::operator(), Shadow01, LoadFaceEdges', 'shared.h Interpolate, Shadows']),
    dict(name='k02_ff_f16', harness='c02_kernels.cpp', entry='h_k02_ff', real='f16', defs={'VF_BND': 1024}, backends=['kissat', 'minisat'], timeout=900, unwind={'default': 4}, tiers=['quick', 'thorough'],
         claim='Kernel02<false,false>: same contracts', bounds='binary16, |x|<=1024', targets=['boolean3.cpp Kernel02<false,false>']),
  ],
}

PROPERTIES['C05'] = {
  'level_text': 'Bounded model checking of the real copy-on-write storage (Vec<T,true>, Halfedges): from every sharing configuration of three handles, one or two arbitrary operations through the library\'s MakeUnique discipline leave every other handle\'s observable contents bit-identical; harvested AssertUnique obligations hold; blocks are freed once (CBMC memory-leak and double-free checks).',
  'level_note': 'Storage level only. The shared_ptr<const Impl> discipline of manifold.cpp/csg_tree.cpp, CrossSection PathImpl and the MakeUnique call sites inside mesh algorithms are outside this check (DESIGN.md C05). Vectors of <=3 ints, <=2 operations.',
  'obligations': [
  ] + [
    dict(name='sharedvec_cfg%d' % c, harness='c05_vec.cpp', entry='h_sharedvec', defs={'VF_CFG': c, 'VF_N': 2}, backends=['minisat'], timeout=900, unwind={'default': 5}, cbmc=['--memory-leak-check'], object_bits=11,
         cdefs=['VF_ALLOC_CLASSES=VF_C(4) VF_C(8) VF_C(12) VF_C(512)', 'VF_ALLOC_STRICT'],
         claim='SharedVec<int>, sharing configuration %d of 5: copy/move/assign/MakeUnique/push_back/resize/clear/pop_back/operator[] on one handle never change another handle; no leak, no double free; every mutator reaches AssertUnique with a unique block' % c,
         bounds='3 handles, contents <=2 symbolic ints, 1 arbitrary operation (8 kinds) on an arbitrary handle', targets=['src/vec.h Vec<int,true>'])
    for c in range(5)
  ] + [
    dict(name='halfedges', harness='c05_vec.cpp', entry='h_halfedges', backends=['minisat'], timeout=900, unwind={'default': 8}, cbmc=['--memory-leak-check'], object_bits=10,
         claim='Halfedges wrappers (MakeUnique, MakeInvalid, Set, push_back, resize, clear) on one handle leave a sharing handle unchanged', bounds='<=6 halfedges, 1 operation', targets=['src/shared.h Halfedges']),
  ],
}

PROPERTIES['C17'] = {
  'level_text': 'Bounded model checking of the numeric kernels behind the constructors and transforms: Quality settings -> segment counts for every double/int argument (no undefined float->int conversion, documented multiples of four, monotone in |radius| at the defaults), and exactness of sind/cosd at every multiple of 90 degrees up to 9e7 degrees with remquo modelled by its C17 contract.',
  'level_note': 'Numeric/index kernels only; point-in-solid semantics of Cube/Sphere/Cylinder/Extrude/Revolve/LevelSet, Warp and volume scaling are outside the claim (DESIGN.md C17). remquo is a contract model (models/libm.h).',
  'obligations': [
    dict(name='circular_segments', harness='c17_numeric.cpp', entry='h_circular_segments', models=['libm.h'], backends=['minisat'], timeout=600, unwind={'default': 3},
         claim='Quality::Set*/GetCircularSegments for every double angle/length/radius and int segment count: no UB, result is the set count or a multiple of 4 >= 4',
         bounds='all 64-bit doubles (incl. NaN, inf, denormals) and all ints', targets=['manifold.cpp Quality::SetMinCircularAngle/SetMinCircularEdgeLength/SetCircularSegments/GetCircularSegments']),
    dict(name='circular_segments_default', harness='c17_numeric.cpp', entry='h_circular_segments_default', models=['libm.h'], backends=['minisat'], timeout=600, unwind={'default': 3},
         claim='with default Quality: 4 <= n <= 36, multiple of 4, even in radius, monotone non-decreasing in |radius|', bounds='all doubles', targets=['Quality::GetCircularSegments']),
    dict(name='sind_exact', harness='c17_numeric.cpp', entry='h_sind_exact', models=['libm.h'], backends=['minisat', 'kissat'], timeout=900, unwind={'default': 3}, recursion={'sind': 2}, object_bits=12, forbid=['_ZN8manifold4math7RemPio2.*'],
         claim='sind(90k) and cosd(90k) are exactly 0, +1 or -1 with the right sign', bounds='|k| <= 10^6; remquo by contract; the large-argument reduction RemPio2 is asserted unreachable', targets=['common.h sind, cosd', 'math.h sin, cos (small-argument paths)']),
    dict(name='sind_nonfinite', harness='c17_numeric.cpp', entry='h_sind_nonfinite', models=['libm.h'], backends=['minisat'], timeout=600, unwind={'default': 3}, recursion={'sind': 2}, object_bits=12, forbid=['_ZN8manifold4math7RemPio2.*'],
         claim='sind/cosd of NaN or +-inf is NaN', bounds='all non-finite doubles', targets=['common.h sind, cosd']),
  ],
}

#!/bin/bash
# runs the quick (or $1) tier of every claimed check sequentially; prints exit codes
TIER=${1:-quick}
cd "$(dirname "$0")"
for p in $(python3 -c "import json;print(' '.join(json.load(open('claimed.json'))))"); do
  s=$(date +%s); ./check $p --tier $TIER > /var/tmp/runall_$p.log 2>&1; rc=$?
  echo "$p rc=$rc $(( $(date +%s) - s ))s"
done

#!/usr/bin/env python3
"""Driver: for one property, run every obligation of the chosen tier.

Per obligation:  harness TU --clang-14--> LLVM IR --ir2c.py--> C --cbmc--> verdict.
A witness twin (-DVF_WITNESS) must reach its final assertion, otherwise the
obligation is vacuous.  A counterexample is turned into a replay file (the
vf_nondet_* values in call order) and re-executed against a native ASan/UBSan
build of the same harness TU (real repo code, same cuts); only a reproduced
counterexample is reported as VIOLATION.

Exit codes: 0 all obligations proved within their bounds, witnesses reachable;
1 a replayed violation not listed in known_findings.json; 2 inconclusive.
"""
import concurrent.futures as cf
import threading
import hashlib, json, os, re, resource, shutil, signal, subprocess, sys, threading, time

ROOT = os.path.dirname(os.path.dirname(os.path.abspath(__file__)))
REPO = os.environ.get('VERIF_REPO', '/repo')
ENG = os.path.join(ROOT, 'engine')
HAR = os.path.join(ROOT, 'harness')
MOD = os.path.join(ROOT, 'models')
CLANG = 'clang++-14'
CLANG_FLAGS = ['-std=c++17', '-O1', '-fno-vectorize', '-fno-slp-vectorize', '-fno-unroll-loops',
               '-fno-strict-aliasing', '-Wno-everything', '-DMANIFOLD_VERIF=1',
               '-I' + HAR, '-I' + os.path.join(REPO, 'src'), '-I' + os.path.join(REPO, 'include'),
               '-I' + os.path.join(REPO, 'bindings/c/include'), '-I' + os.path.join(REPO, 'bindings/c')]
CBMC_FLAGS = ['--unwinding-assertions', '--undefined-shift-check', '--signed-overflow-check',
              '--drop-unused-functions', '--no-malloc-may-fail', '--verbosity', '4']
BACKENDS = {
    'minisat': [],
    'cadical': ['--sat-solver', 'cadical'],
    'kissat': ['--external-sat-solver', 'kissat'],
    'z3': ['--z3'],
    'cvc5': ['--cvc5'],
}
REAL = {  # reduced IEEE formats: (total width, mantissa bits)
    None: None, 'f64': None,
    'f32': '__CPROVER_floatbv[32][23]', 'f16': '__CPROVER_floatbv[16][10]',
    'f24': '__CPROVER_floatbv[24][16]', 'f12': '__CPROVER_floatbv[12][7]',
}

def log(*a):
    print(*a, flush=True)

def fid(name):
    h = 2166136261
    for ch in os.path.basename(name).encode():
        h = ((h ^ ch) * 16777619) & 0xffffffff
    return h & 0xffffff

def fid_table():
    t = {}
    for base in ('src', 'include/manifold', 'bindings/c'):
        d = os.path.join(REPO, base)
        if os.path.isdir(d):
            for f in os.listdir(d):
                t[fid(f)] = os.path.join(base, f)
    for f in os.listdir(HAR):
        t[fid(f)] = 'harness/' + f
    mi = os.path.join(MOD, 'include')
    for dp, dn, fn in os.walk(mi):
        for f in fn:
            t[fid(f)] = os.path.relpath(os.path.join(dp, f), ROOT)
    return t

def run(cmd, timeout=None, mem_gb=None, cwd=None, env=None, stdout_path=None, group=None):
    """run a command with a wall-clock cap and an address-space cap; returns (rc, out, seconds, maxrss_kb)"""
    def pre():
        os.setsid()
        if mem_gb:
            b = int(mem_gb * (1 << 30))
            resource.setrlimit(resource.RLIMIT_AS, (b, b))
    t0 = time.time()
    out_f = open(stdout_path, 'wb') if stdout_path else subprocess.PIPE
    p = subprocess.Popen(cmd, stdout=out_f, stderr=subprocess.STDOUT, cwd=cwd, env=env, preexec_fn=pre)
    if group is not None: group.append(p)
    try:
        out, _ = p.communicate(timeout=timeout)
        rc = p.returncode
    except subprocess.TimeoutExpired:
        try: os.killpg(p.pid, signal.SIGKILL)
        except ProcessLookupError: pass
        out, _ = p.communicate()
        rc = -999
    if stdout_path:
        out_f.close(); out = open(stdout_path, 'rb').read()
    ru = resource.getrusage(resource.RUSAGE_CHILDREN)
    return rc, (out or b'').decode('utf-8', 'replace'), time.time() - t0, ru.ru_maxrss

class Inconclusive(Exception):
    pass

# ------------------------------------------------------------------ build steps
def clang_ir(ob, wd, witness, native=False):
    """harness TU -> textual LLVM IR.  native=True adds sanitizers for the replay build."""
    src = os.path.join(HAR, ob['harness'])
    out = os.path.join(wd, ('native' if native else ('wit' if witness else 'main')) + '.ll')
    cmd = [CLANG] + CLANG_FLAGS + ['-S', '-emit-llvm', src, '-o', out]
    cmd.append('-DMANIFOLD_PAR=%d' % (1 if ob.get('par') else -1))
    if ob.get('par'):
        cmd.append('-I' + os.path.join(MOD, 'include'))
    if not ob.get('exceptions'):
        cmd.append('-fno-exceptions')
    for k, v in (ob.get('defs') or {}).items():
        cmd.append('-D%s=%s' % (k, v))
    for fl in ob.get('cxxflags', []):
        cmd.append(fl)
    if witness: cmd.append('-DVF_WITNESS=1')
    if native: cmd += ['-DVF_NATIVE=1', '-g', '-fsanitize=address,undefined', '-fno-sanitize-recover=undefined', '-fno-omit-frame-pointer']
    rc, o, t, _ = run(cmd, timeout=600)
    if rc != 0:
        raise Inconclusive('harness does not build: ' + o[-3000:])
    return out

def resolve_names(ll, patterns):
    """mangled-name regexes -> the defined/declared function symbols of the module they match"""
    if not patterns: return []
    names = set(re.findall(r'^(?:define|declare)[^@\n]*@("[^"]+"|[-A-Za-z$._0-9]+)\(', open(ll).read(), re.M))
    names = set(n.strip('"') for n in names)
    out = []
    for pat in patterns:
        rx = re.compile(pat)
        hit = [n for n in names if rx.fullmatch(n) or rx.search(n) and pat.startswith('~')]
        if not hit:
            hit = [n for n in names if rx.search(n)]
        out += sorted(hit)
    return sorted(set(out))

def cname(n):
    return re.sub(r'[^a-zA-Z0-9_]', lambda m: '_%02x' % ord(m.group()), n)

def to_c(ob, wd, ll, tag):
    cuts = resolve_names(ll, ob.get('cuts'))
    redirect = {}
    for pat, stub in (ob.get('redirect') or {}).items():
        hit = resolve_names(ll, [pat])
        if len(hit) != 1:
            raise Inconclusive('redirect pattern %r matches %d functions (%s): harness out of date with the tree' % (pat, len(hit), hit[:4]))
        redirect[cname(hit[0])] = stub
    models = [os.path.join(MOD, m) for m in ob.get('models', [])]
    cfile = os.path.join(wd, tag + '.c'); meta = os.path.join(wd, tag + '.meta.json')
    cmd = ['python3', os.path.join(ENG, 'ir2c.py'), ll, ','.join([ob['entry']] + list(ob.get('extra_roots', []))), '--meta', meta,
           '--cut', ','.join(cname(c) for c in cuts),
           '--forbid', ','.join(cname(c) for c in resolve_names(ll, ob.get('forbid'))),
           '--redirect', ','.join('%s=%s' % kv for kv in redirect.items()),
           '--models', ','.join(models),
           '--fnptr-defs', ob.get('fnptr_defs', '')]
    rc, o, t, _ = run(cmd, timeout=600, stdout_path=cfile)
    if rc != 0:
        raise Inconclusive('ir2c failed: ' + o[-3000:])
    m = json.load(open(meta))
    m['cut_symbols'] = cuts; m['redirect'] = redirect
    return cfile, m

def cbmc_base(ob, cfile):
    cmd = ['cbmc', cfile, '-I', ENG, '--function', ob['entry']]
    real = REAL[ob.get('real')]
    if real: cmd += ['-DVF_NARROW_T=' + real]
    cmd += ['--object-bits', str(ob.get('object_bits', 11))]
    for d in ob.get('cdefs', []): cmd.append('-D' + d)
    return cmd

def deepen(ob, cfile, wd, timeout, mem):
    """iterative deepening of loop bounds: start every loop (and recursion) at spec['start'], run cbmc
    with ONLY the unwinding assertions enabled, double the bound of each loop whose unwinding assertion
    fails, repeat.  The final bounds are the smallest power-of-two-ish bounds under which no loop is cut,
    derived from the current code rather than from loop numbers."""
    spec = ob.get('unwind') or {}
    start = spec.get('start', 2); cap = spec.get('max', 16)
    rc, o, t, _ = run(cbmc_base(ob, cfile) + ['--show-loops', '--drop-unused-functions'], timeout=max(300, ob.get('timeout', 600)))
    loops = re.findall(r'^Loop ([^\s:]+):', o, re.M)
    if rc != 0 and not loops:
        raise Inconclusive('cbmc front end rejected the generated C: ' + o[-2000:])
    meta = json.load(open(cfile[:-2] + '.meta.json'))
    bounds = {}
    for l in loops:
        fn = l.rsplit('.', 1)[0]; b = start
        for pat, n in spec.items():
            if pat not in ('default', 'auto', 'start', 'max', 'rounds') and re.search(pat, fn): b = n
        bounds[l] = b
    rspec = ob.get('recursion') or {}
    for fn in meta.get('recursive', []):
        b = rspec.get('default', start)
        for pat, n in rspec.items():
            if pat != 'default' and re.search(pat, fn): b = n
        bounds[fn] = b
    rounds = 0; secs = 0
    while True:
        rounds += 1
        uw = ['%s:%d' % (k, v + 1) for k, v in bounds.items()]
        cmd = cbmc_base(ob, cfile) + ['--unwinding-assertions', '--no-standard-checks', '--no-assertions', '--drop-unused-functions',
                                     '--no-malloc-may-fail', '--verbosity', '4'] + BACKENDS[(ob.get('backends') or ['minisat'])[0]] + uw_args(uw)
        rc, o, t, _ = run(cmd, timeout=timeout, mem_gb=mem)
        secs += t
        if rc == -999: raise Inconclusive('bound search timed out after %d rounds' % rounds)
        failed = [n for n, dsc, s in PROP_RE.findall(o) if s == 'FAILURE' and ('unwinding assertion' in dsc or 'recursion' in dsc)]
        if not failed:
            if 'VERIFICATION SUCCESSFUL' not in o and 'VERIFICATION FAILED' not in o:
                raise Inconclusive('bound search: cbmc error: ' + o[-1500:])
            return uw, {'rounds': rounds, 'seconds': round(secs, 1)}
        grew = False
        for n in failed:
            m = re.match(r'(.*)\.unwind\.(\d+)$', n)
            key = '%s.%s' % (m.group(1), m.group(2)) if m else re.sub(r'\.recursion$', '', n)
            if key in bounds and bounds[key] < cap:
                bounds[key] = min(cap, bounds[key] * 2); grew = True
        if not grew or rounds > spec.get('rounds', 8):
            raise Inconclusive('loop bound cap %d reached for %s' % (cap, failed[:4]))

def unwindset(ob, cfile, wd):
    spec = ob.get('unwind') or {}
    rc, o, t, _ = run(cbmc_base(ob, cfile) + ['--show-loops', '--drop-unused-functions'], timeout=max(300, ob.get('timeout', 600)))
    loops = re.findall(r'^Loop ([^\s:]+):', o, re.M)
    if rc != 0 and not loops:
        raise Inconclusive('cbmc front end rejected the generated C: ' + o[-2000:])
    default = spec.get('default', 4)
    items = []
    for l in loops:
        fn = l.rsplit('.', 1)[0]
        b = default
        for pat, n in spec.items():
            if pat != 'default' and re.search(pat, fn): b = n
        items.append('%s:%d' % (l, b + 1))
    # recursion: every function on a call-graph cycle gets a bound (default = the loop default)
    rspec = ob.get('recursion') or {}
    meta = json.load(open(cfile[:-2] + '.meta.json'))
    for fn in meta.get('recursive', []):
        b = rspec.get('default', default)
        for pat, n in rspec.items():
            if pat != 'default' and re.search(pat, fn): b = n
        items.append('%s:%d' % (fn, b + 1))
    return items

PROP_RE = re.compile(r'^\[([^\]]+)\] (?:line \d+ )?(.*): (SUCCESS|FAILURE|UNKNOWN|ERROR)$', re.M)

def uw_args(uw):
    """--unwindset for every loop; when that would exceed the kernel's argument size limit, a global
    --unwind for the most common bound plus explicit entries for the loops that differ"""
    if not uw: return []
    s = ','.join(uw)
    if len(s) < 100000: return ['--unwindset', s]
    from collections import Counter
    common = Counter(x.rsplit(':', 1)[1] for x in uw).most_common(1)[0][0]
    rest = [x for x in uw if x.rsplit(':', 1)[1] != common]
    out = ['--unwind', common]
    if rest: out += ['--unwindset', ','.join(rest)]
    return out

def cbmc_run(ob, cfile, wd, tag, backend, uw, extra, timeout, mem, group=None):
    cmd = cbmc_base(ob, cfile) + CBMC_FLAGS + BACKENDS[backend] + extra
    cmd += uw_args(uw)
    outp = os.path.join(wd, '%s.%s.out' % (tag, backend))
    rc, o, secs, rss = run(cmd, timeout=timeout, mem_gb=mem, stdout_path=outp, group=group, env=dict(os.environ, TMPDIR=wd))
    res = {'backend': backend, 'seconds': round(secs, 2), 'rc': rc, 'out': outp}
    props = PROP_RE.findall(o)
    res['props'] = len(props)
    res['failed'] = [(n, d) for n, d, s in props if s == 'FAILURE']
    if rc == -999: res['status'] = 'timeout'
    elif 'VERIFICATION SUCCESSFUL' in o: res['status'] = 'proved'
    elif 'VERIFICATION FAILED' in o: res['status'] = 'failed'
    elif 'std::bad_alloc' in o or 'Out of memory' in o or rc in (-9, 137, 134, -6): res['status'] = 'oom'
    else: res['status'] = 'error'; res['tail'] = o[-1500:]
    return res

def race(ob, cfile, wd, tag, uw, extra, timeout, mem):
    """run the obligation's back ends concurrently; first verdict wins"""
    bes = ob.get('backends') or ['minisat']
    if len(bes) == 1:
        return cbmc_run(ob, cfile, wd, tag, bes[0], uw, extra, timeout, mem)
    results = {}; group = []
    with cf.ThreadPoolExecutor(len(bes)) as ex:
        futs = {ex.submit(cbmc_run, ob, cfile, wd, tag, b, uw, extra, timeout, mem, group): b for b in bes}
        winner = None
        for f in cf.as_completed(futs):
            r = f.result(); results[futs[f]] = r
            if r['status'] in ('proved', 'failed') and winner is None:
                winner = r
                for p in group:
                    try: os.killpg(p.pid, signal.SIGKILL)
                    except (ProcessLookupError, PermissionError): pass
        if winner is None:
            winner = list(results.values())[0]
        winner['raced'] = bes
        return winner

# ------------------------------------------------------------------ counterexamples
def parse_traces(text):
    """split CBMC text output into {property name: [(kind, hexvalue), ...]} nondet sequences"""
    traces = {}
    parts = re.split(r'^Trace for ([^\n:]+):\s*$', text, flags=re.M)
    for i in range(1, len(parts), 2):
        name = parts[i].strip(); body = parts[i + 1]
        vals = []
        for m in re.finditer(r'^State \d+ file \S+ function (vf_nondet_\w+) line \d+[^\n]*\n-+\n\s+vf_r=[^\n]*?\(([01 ]+)\)\s*$', body, re.M):
            kind = m.group(1)[len('vf_nondet_'):]
            bits = m.group(2).replace(' ', '')
            vals.append((kind, '%x' % int(bits, 2)))
        traces[name] = vals
    return traces

ENV_HELPERS_IR = """
declare void @vf_env()
declare zeroext i1 @vf_native_spurious(i32)
%(defs)s
"""
def rewrite_atomics_for_env(text):
    """interference obligations: in the native replay every atomic access of the code under test is
    preceded by a call of the harness's vf_env(), exactly as engine/vf_rt.h does on the solver side
    (a weak compare-exchange may also fail spuriously, consuming the same nondet value)"""
    defs = {}
    def helper(kind, bits, op=None):
        t = 'i%d' % bits
        if kind == 'load':
            n = 'vf_nat_load_%d' % bits
            defs[n] = 'define %s @%s(%s* %%p) {\n  call void @vf_env()\n  %%v = load atomic %s, %s* %%p seq_cst, align %d\n  ret %s %%v\n}' % (t, n, t, t, t, bits // 8, t)
        elif kind == 'store':
            n = 'vf_nat_store_%d' % bits
            defs[n] = 'define void @%s(%s* %%p, %s %%v) {\n  call void @vf_env()\n  store atomic %s %%v, %s* %%p seq_cst, align %d\n  ret void\n}' % (n, t, t, t, t, bits // 8)
        elif kind == 'rmw':
            n = 'vf_nat_rmw_%s_%d' % (op, bits)
            defs[n] = 'define %s @%s(%s* %%p, %s %%v) {\n  call void @vf_env()\n  %%o = atomicrmw %s %s* %%p, %s %%v seq_cst\n  ret %s %%o\n}' % (t, n, t, t, op, t, t, t)
        else:
            n = 'vf_nat_cas_%d' % bits
            defs[n] = ('define { %s, i1 } @%s(%s* %%p, %s %%c, %s %%n, i32 %%weak) {\n  call void @vf_env()\n  %%cur = load atomic %s, %s* %%p seq_cst, align %d\n  %%eq = icmp eq %s %%cur, %%c\n  br i1 %%eq, label %%try, label %%real\n'
                       'try:\n  %%sp = call zeroext i1 @vf_native_spurious(i32 %%weak)\n  br i1 %%sp, label %%fail, label %%real\n'
                       'fail:\n  %%f0 = insertvalue { %s, i1 } undef, %s %%cur, 0\n  %%f1 = insertvalue { %s, i1 } %%f0, i1 false, 1\n  ret { %s, i1 } %%f1\n'
                       'real:\n  %%r = cmpxchg %s* %%p, %s %%c, %s %%n seq_cst seq_cst\n  ret { %s, i1 } %%r\n}') % (t, n, t, t, t, t, t, bits // 8, t, t, t, t, t, t, t, t, t)
        return n
    def top_split(s):
        """split at top-level commas (constant GEP expressions contain commas inside parentheses)"""
        parts = []; depth = 0; cur = ''
        for ch in s:
            if ch in '([{<': depth += 1
            elif ch in ')]}>': depth -= 1
            if ch == ',' and depth == 0: parts.append(cur.strip()); cur = ''
            else: cur += ch
        parts.append(cur.strip()); return parts
    ORD = r'(?:unordered|monotonic|acquire|release|acq_rel|seq_cst)'
    def strip_ord(x): return re.sub(r'\s+(?:syncscope\("[^"]*"\)\s+)?' + ORD + r'(?:\s+' + ORD + r')?\s*$', '', x).strip()
    out = []
    for ln in text.split('\n'):
        body = re.sub(r',\s*![-\w.]+\s+!\d+', '', ln)   # drop metadata attachments
        m = re.match(r'^(\s*)(%[-\w.]+) = load atomic (?:volatile )?i(\d+), (.*)$', body)
        if m and int(m.group(3)) in (8, 16, 32, 64):
            ops = top_split(m.group(4)); ptr = strip_ord(ops[0]); b = m.group(3)
            ptr = re.sub(r'^i\d+\*\s+', '', ptr)
            out.append('%s%s = call i%s @%s(i%s* %s)' % (m.group(1), m.group(2), b, helper('load', int(b)), b, ptr)); continue
        m = re.match(r'^(\s*)store atomic (?:volatile )?i(\d+) (.*)$', body)
        if m and int(m.group(2)) in (8, 16, 32, 64):
            ops = top_split(m.group(3)); val = ops[0]; ptr = re.sub(r'^i\d+\*\s+', '', strip_ord(ops[1])); b = m.group(2)
            out.append('%scall void @%s(i%s* %s, i%s %s)' % (m.group(1), helper('store', int(b)), b, ptr, b, val)); continue
        m = re.match(r'^(\s*)(%[-\w.]+) = atomicrmw (?:volatile )?(\w+) i(\d+)\* (.*)$', body)
        if m and int(m.group(4)) in (8, 16, 32, 64):
            ops = top_split(m.group(5)); ptr = ops[0]; val = re.sub(r'^i\d+\s+', '', strip_ord(ops[1])); b = m.group(4)
            out.append('%s%s = call i%s @%s(i%s* %s, i%s %s)' % (m.group(1), m.group(2), b, helper('rmw', int(b), m.group(3)), b, ptr, b, val)); continue
        m = re.match(r'^(\s*)(%[-\w.]+) = cmpxchg (weak )?(?:volatile )?i(\d+)\* (.*)$', body)
        if m and int(m.group(4)) in (8, 16, 32, 64):
            ops = top_split(m.group(5)); ptr = ops[0]; cmpv = re.sub(r'^i\d+\s+', '', ops[1]); newv = re.sub(r'^i\d+\s+', '', strip_ord(ops[2])); b = m.group(4)
            out.append('%s%s = call { i%s, i1 } @%s(i%s* %s, i%s %s, i%s %s, i32 %d)' % (m.group(1), m.group(2), b, helper('cas', int(b)), b, ptr, b, cmpv, b, newv, 1 if m.group(3) else 0)); continue
        out.append(ln)
    text = '\n'.join(out)
    hdr = ENV_HELPERS_IR % {'defs': '\n'.join(defs.values())}
    if 'declare void @vf_env()' in text or re.search(r'^define[^\n]*@vf_env\(', text, re.M): hdr = hdr.replace('declare void @vf_env()\n', '')
    return text + hdr

def native_build(ob, wd):
    """native replay binary through the IR route: same TU, sanitizers on, cut functions replaced by exits"""
    exe = os.path.join(wd, 'replay.exe')
    if os.path.exists(exe): return exe
    ll = clang_ir(ob, wd, witness=False, native=True)
    cuts = resolve_names(ll, ob.get('cuts'))
    text = open(ll).read()
    for pat, stub in (ob.get('redirect') or {}).items():
        for h in resolve_names(ll, [pat]):
            # call sites only: "@name(" not preceded by "define ... "
            text = re.sub(r'^(?!define|declare)(.*)@%s\(' % re.escape(h), lambda m: m.group(1) + '@' + stub + '(', text, flags=re.M)
    if ob.get('cancel_oracle'):
        text = re.sub(r'(%[-\w.]+) = load atomic i8, i8\* (%[-\w.]+) [^\n]*', r'\1 = call i8 @vf_atomic_load_8(i8* \2)', text)
        if 'declare i8 @vf_atomic_load_8' not in text: text += '\ndeclare i8 @vf_atomic_load_8(i8*)\n'
    if 'VF_HAVE_ENV' in (ob.get('cdefs') or []):
        text = rewrite_atomics_for_env(text)
    ll2 = os.path.join(wd, 'native2.ll'); open(ll2, 'w').write(text)
    if cuts:
        ll3 = os.path.join(wd, 'native3.ll')
        cmd = ['llvm-extract-14', '-S', '--delete'] + sum((['--func', c] for c in cuts if re.search(r'^define[^\n]*@"?%s"?\(' % re.escape(c), text, re.M)), []) + [ll2, '-o', ll3]
        rc, o, t, _ = run(cmd, timeout=300)
        if rc != 0: raise Inconclusive('llvm-extract failed: ' + o[-1500:])
        ll2 = ll3
    stubs = os.path.join(wd, 'cutstubs.c')
    with open(stubs, 'w') as f:
        f.write('void vf_cut_exit(void);\n')
        for c in cuts:
            f.write('void %s(void) __attribute__((alias("vf_cut_tramp")));\n' % c if False else '')
        f.write('void vf_cut_tramp(void) { vf_cut_exit(); }\n')
        for c in cuts:
            f.write('void cut_%d(void) __asm__("%s") __attribute__((alias("vf_cut_tramp")));\n' % (abs(hash(c)) % 10**9, c))
    obj = os.path.join(wd, 'native.o')
    # the IR is already instrumented (sanitizer passes ran when it was emitted): compile it as is
    rc, o, t, _ = run([CLANG, '-c', '-O0', '-g', '-Wno-everything', '-x', 'ir', ll2, '-o', obj], timeout=900)
    if rc != 0: raise Inconclusive('native replay build failed (IR): ' + o[-3000:])
    base = [CLANG, '-O1', '-g', '-fsanitize=address,undefined', '-fno-sanitize-recover=undefined', '-Wno-everything',
            '-DVF_ENTRY=' + ob['entry'], obj, '-x', 'c', stubs, '-x', 'c++', os.path.join(ENG, 'vf_native.cpp'), '-o', exe, '-lpthread', '-Wl,--no-demangle']
    rc, o, t, _ = run(base, timeout=900)
    if rc != 0:
        # symbols defined in other repo TUs (the harness includes one source file): give each a
        # trap definition; reaching one in a replay is reported, never silently ignored
        und = sorted(set(re.findall(r"undefined reference to `([^']+)'", o)))
        if not und: raise Inconclusive('native replay build failed: ' + o[-3000:])
        us = os.path.join(wd, 'undef_stubs.c')
        with open(us, 'w') as f:
            f.write('void vf_unresolved_called(void);\n')
            for i, u in enumerate(und):
                f.write('void vf_u_%d(void) __asm__("%s"); void vf_u_%d(void) { vf_unresolved_called(); }\n' % (i, u, i))
        rc, o, t, _ = run(base + ['-x', 'c', us], timeout=900)
        if rc != 0: raise Inconclusive('native replay build failed: ' + o[-3000:])
    return exe

def native_replay(ob, wd, vals, path=None):
    exe = native_build(ob, wd)
    rf = path or os.path.join(wd, 'replay.txt')
    if not path:
        with open(rf, 'w') as f:
            for k, v in vals: f.write('%s %s\n' % (k, v))
    env = dict(os.environ, VF_REPLAY=rf, ASAN_OPTIONS='detect_leaks=0:abort_on_error=0:exitcode=1', UBSAN_OPTIONS='print_stacktrace=1:halt_on_error=1:exitcode=1')
    rc, o, t, _ = run([exe], timeout=120, env=env)
    return rc, o

# ------------------------------------------------------------------ one obligation
def do_obligation(pid, ob, tier, scratch, fids, known):
    name = ob['name']; wd = os.path.join(scratch, name); os.makedirs(wd, exist_ok=True)
    rec = {'obligation': name, 'harness': 'harness/' + ob['harness'], 'entry': ob['entry'],
           'claim': ob.get('claim', ''), 'bounds': ob.get('bounds', ''), 'defs': ob.get('defs', {}),
           'real_format': ob.get('real') or 'f64 (native double)', 'cuts': ob.get('cuts', []),
           'redirects': ob.get('redirect', {}), 'models': ob.get('models', []), 'assumptions': ob.get('assumes', []),
           'targets': ob.get('targets', [])}
    t0 = time.time()
    timeout = ob.get('timeout', 600) * (1 if tier == 'quick' else ob.get('thorough_timeout_factor', 1))
    mem = ob.get('mem_gb', 12)
    try:
        ll = clang_ir(ob, wd, witness=False)
        cfile, meta = to_c(ob, wd, ll, 'main')
        rec['functions_encoded'] = [demangle_short(f) for f in meta['functions']][:200]
        rec['n_functions_encoded'] = len(meta['functions']); rec['ir_instructions'] = meta['ir_instructions']
        rec['externals_modelled'] = meta['modelled']; rec['externals_cut'] = meta['cut']; rec['externals_unmodelled_asserted_unreachable'] = meta['unmodelled']
        if (ob.get('unwind') or {}).get('auto'):
            uw, dinfo = deepen(ob, cfile, wd, timeout, mem); rec['bound_search'] = dinfo; rec['queries'] = dinfo['rounds']
        else:
            uw = unwindset(ob, cfile, wd)
        rec['unwindset'] = uw
        extra = list(ob.get('cbmc', [])) + ['--trace']
        # witness twin, run concurrently with the main query
        with cf.ThreadPoolExecutor(2) as ex:
            fw = ex.submit(witness_run, ob, wd, uw, timeout, mem)
            r = race(ob, cfile, wd, 'main', uw, extra, timeout, mem)
            w = fw.result()
        rec['solver'] = {k: r[k] for k in ('backend', 'seconds', 'status', 'props') if k in r}
        rec['witness'] = w
        rec['queries'] = rec.get('queries', 0) + 2
        if r['status'] in ('timeout', 'oom', 'error'):
            rec['verdict'] = 'inconclusive'; rec['why'] = 'solver %s after %.0fs %s' % (r['status'], r['seconds'], r.get('tail', ''))
            return rec
        if r['status'] == 'proved':
            if w['status'] != 'reached':
                rec['verdict'] = 'inconclusive'; rec['why'] = 'witness twin not reachable (%s): harness vacuous or bound too small' % w['status']
                return rec
            rec['verdict'] = 'proved'
            return rec
        # failed: triage counterexamples
        text = open(r['out']).read(); traces = parse_traces(text)
        if '--slice-formula' in (ob.get('cbmc') or []):
            # a sliced formula yields a trace without the irrelevant nondet values, which cannot be
            # replayed in call order: re-ask the solver, unsliced, for the first failing properties only
            # (engine/vf_rt.h keeps every nondet value relevant through a 'trace-keep' property, so the
            # sliced trace is normally complete; the unsliced re-query is the fallback)
            for pname, desc in [f for f in r['failed'] if 'unwinding assertion' not in f[1] and not traces.get(f[0])][:2]:
                cmd = cbmc_base(ob, cfile) + CBMC_FLAGS + BACKENDS[r['backend']] + [x for x in ob.get('cbmc', []) if x != '--slice-formula'] + ['--trace', '--property', pname]
                cmd += uw_args(uw)
                outp = os.path.join(wd, 'unsliced.%s.out' % re.sub(r'\W', '_', pname))
                rc2, o2, s2, _ = run(cmd, timeout=timeout, mem_gb=mem, stdout_path=outp, env=dict(os.environ, TMPDIR=wd))
                traces.update(parse_traces(o2)); rec['queries'] += 1
        rec['counterexamples'] = []
        confirmed = None; unconfirmed = []; known_hits = []
        # replay each distinct failing property (a few at most)
        tried = 0
        for pname, desc in r['failed']:
            desc_h = humanise(desc, fids)
            kf = match_known(known, pid, name, desc_h)
            ce = {'property': pname, 'description': desc_h}
            is_bound = 'unwinding assertion' in desc or '(bound)' in desc
            vals = traces.get(pname)
            if vals is None or tried >= 4 or (confirmed is not None and not kf):
                ce['class'] = 'not-replayed'; unconfirmed.append(ce); rec['counterexamples'].append(ce); continue
            tried += 1
            try:
                rc, o = native_replay(ob, wd, vals)
            except Inconclusive as e:
                ce['class'] = 'replay-build-failed'; ce['detail'] = str(e)[-800:]; unconfirmed.append(ce); rec['counterexamples'].append(ce); continue
            ce['native_rc'] = rc; ce['native_tail'] = o[-1200:]
            ce['nondet_values'] = len(vals)
            reproduced = reproduced_natively(rc, o)
            if reproduced and is_bound:
                # the solver only hit a harness bound, but the same inputs make the native code fail: report what the native run shows
                m = re.search(r'(runtime error: [^\n]*|ERROR: AddressSanitizer: [^\n]*|VF-NATIVE-FAIL [^\n]*)', o)
                ce['description'] = desc_h = 'native replay: ' + (m.group(1) if m else 'failure') + ' (solver trace ended at: %s)' % desc_h
            elif is_bound:
                ce['class'] = 'bound'
            if ob.get('real') and not reproduced:
                ce['class'] = 'narrow-format-only'
            if reproduced:
                ce['class'] = 'confirmed'
                if kf: known_hits.append((kf, ce))
                elif confirmed is None:
                    confirmed = ce
                    ce['replay'] = save_replay(pid, name, ob, vals, pname, desc_h, o)
            else:
                ce['class'] = ce.get('class', 'unconfirmed'); unconfirmed.append(ce)
            rec['counterexamples'].append(ce)
        rec['known_findings'] = [k['id'] for k, c in known_hits]
        if confirmed:
            rec['verdict'] = 'violated'; rec['violation'] = confirmed
        elif known_hits and not unconfirmed:
            rec['verdict'] = 'known-finding'
        else:
            rec['verdict'] = 'inconclusive'
            rec['why'] = 'counterexample(s) not reproduced natively: ' + '; '.join('%s [%s]' % (c['description'], c['class']) for c in unconfirmed[:5])
        return rec
    except Inconclusive as e:
        rec['verdict'] = 'inconclusive'; rec['why'] = str(e)
        return rec
    finally:
        rec['wall_s'] = round(time.time() - t0, 2)

def reproduced_natively(rc, out):
    """a replay counts only if the harness/library assertion fired, a sanitizer reported, or the run hung"""
    if 'VF-NATIVE-FAIL' in out: return True
    if 'ERROR: AddressSanitizer' in out or 'runtime error:' in out or 'ERROR: LeakSanitizer' in out: return True
    if rc in (-14, 142) or rc == -999: return True   # alarm(60): does not terminate
    if rc in (-8, 136) and 'VF-NATIVE' not in out: return True  # SIGFPE (integer division by zero)
    return False

def witness_run(ob, wd, uw, timeout, mem):
    try:
        ll = clang_ir(ob, wd, witness=True)
        cfile, meta = to_c(ob, wd, ll, 'wit')
        if not (ob.get('unwind') or {}).get('auto'): uw = unwindset(ob, cfile, wd)
        # only the WITNESS assertion matters: find its property id
        rc, o, t, _ = run(cbmc_base(ob, cfile) + ['--show-properties', '--drop-unused-functions', '--no-standard-checks'], timeout=300)
        ids = re.findall(r'^Property ([^\s:]+):\s*\n(?:[^\n]*\n){0,3}?\s*WITNESS', o, re.M)
        if not ids:
            ids = [m.group(1) for m in re.finditer(r'Property (\S+?):\n[^\n]*\n\s+WITNESS', o)]
        if not ids:
            return {'status': 'no-witness-property', 'seconds': 0}
        cmd_extra = ['--no-standard-checks', '--no-malloc-may-fail', '--drop-unused-functions', '--verbosity', '4']
        for i in ids: cmd_extra += ['--property', i]
        best = None
        bes = ob.get('witness_backends') or ob.get('backends') or ['minisat']
        cmd = cbmc_base(ob, cfile) + cmd_extra + BACKENDS[bes[0]] + list(ob.get('cbmc', []))
        cmd += uw_args(uw)
        rc, o, secs, rss = run(cmd, timeout=timeout, mem_gb=mem, stdout_path=os.path.join(wd, 'wit.out'))
        if 'VERIFICATION FAILED' in o: st = 'reached'
        elif 'VERIFICATION SUCCESSFUL' in o: st = 'unreachable'
        elif rc == -999: st = 'timeout'
        else: st = 'error'
        return {'status': st, 'seconds': round(secs, 2), 'backend': bes[0]}
    except Inconclusive as e:
        return {'status': 'error: ' + str(e)[-500:], 'seconds': 0}

def demangle_short(n):
    return n

def humanise(desc, fids):
    m = re.match(r'libassert:(\d+):(\d+)', desc)
    if m:
        return 'library ASSERT at %s:%s' % (fids.get(int(m.group(1)), 'file#' + m.group(1)), m.group(2))
    return desc

def match_known(known, pid, obname, desc):
    for k in known:
        if k.get('status') != 'open': continue
        if k['property'] != pid: continue
        if k.get('obligation') and k['obligation'] != obname: continue
        if re.search(k['match'], desc): return k
    return None

def save_replay(pid, obname, ob, vals, pname, desc, native_out):
    d = os.path.join(ROOT if REPO == '/repo' else '/var/tmp/verif_other_tree', 'replays', pid); os.makedirs(d, exist_ok=True)
    p = os.path.join(d, obname + '.json')
    json.dump({'property': pid, 'obligation': obname, 'harness': ob['harness'], 'entry': ob['entry'],
               'failed_cbmc_property': pname, 'description': desc,
               'nondet_values': [list(v) for v in vals], 'native_output_tail': native_out[-1500:],
               'how_to_replay': './check %s --replay %s' % (pid, os.path.relpath(p, ROOT))}, open(p, 'w'), indent=1)
    return p

# ------------------------------------------------------------------ property level
def load_obligations():
    sys.path.insert(0, ROOT)
    import importlib
    m = importlib.import_module('obligations')
    return m.PROPERTIES

def main():
    args = sys.argv[1:]
    if not args:
        print('usage: check <property id> [--tier quick|thorough] [--only obligation] [--replay path] [--keep] [--jobs n]'); sys.exit(2)
    pid = args[0]
    tier = os.environ.get('VERIF_TIER', 'quick')
    only = None; keep = False; jobs = int(os.environ.get('VERIF_JOBS', '8')); replay = None
    i = 1
    while i < len(args):
        if args[i] == '--tier': tier = args[i + 1]; i += 2
        elif args[i] == '--only': only = args[i + 1].split(','); i += 2
        elif args[i] == '--keep': keep = True; i += 1
        elif args[i] == '--jobs': jobs = int(args[i + 1]); i += 2
        elif args[i] == '--replay': replay = args[i + 1]; i += 2
        else: print('unknown arg', args[i]); sys.exit(2)
    seed = int(os.environ.get('VERIF_SEED', '0') or 0)
    props = load_obligations()
    if pid not in props:
        print('no obligations for', pid); sys.exit(2)
    P = props[pid]
    obs = [o for o in P['obligations'] if tier in o.get('tiers', ['quick', 'thorough'])]
    if only: obs = [o for o in P['obligations'] if o['name'] in only]
    scratch = '/var/tmp/verif.%d' % os.getpid()
    os.makedirs(scratch, exist_ok=True)
    fids = fid_table()
    kfile = os.path.join(ROOT, 'known_findings.json')
    known = json.load(open(kfile))['findings'] if os.path.exists(kfile) else []
    t0 = time.time()
    try:
        if replay:
            sys.exit(do_replay(pid, P, replay, scratch))
        recs = []
        # memory-aware admission: obligations run in parallel as long as the sum of their (halved) memory caps fits
        # the budget - eight 30 GB solver runs at once exhaust the machine and every one of them then reports "oom"
        try: total_gb = int(open('/proc/meminfo').readline().split()[1]) / (1 << 20)
        except Exception: total_gb = 32
        budget = float(os.environ.get('VERIF_MEM_GB', total_gb * 0.8))
        cond = threading.Condition(); state = {'avail': budget}
        def gated(o):
            w = min(budget, max(2.0, o.get('mem_gb', 12) / 2.0))
            with cond:
                while state['avail'] < w: cond.wait()
                state['avail'] -= w
            try: return do_obligation(pid, o, tier, scratch, fids, known)
            finally:
                with cond:
                    state['avail'] += w; cond.notify_all()
        with cf.ThreadPoolExecutor(max(1, jobs)) as ex:
            futs = [ex.submit(gated, o) for o in obs]
            for f, o in zip(futs, obs):
                r = f.result(); recs.append(r)
                s = r.get('solver', {})
                log('[%s] %-34s %-12s %6.1fs  props=%s backend=%s witness=%s %s' % (pid, r['obligation'], r['verdict'], r['wall_s'], s.get('props'), s.get('backend'), r.get('witness', {}).get('status'), r.get('why', '')[:400]))
        rcode = 0
        for r in recs:
            if r['verdict'] == 'known-finding' or r.get('known_findings'):
                for k in known:
                    if k['id'] in r.get('known_findings', []):
                        log('KNOWN-FINDING: property=%s %s' % (pid, k['what']))
        for r in recs:
            if r['verdict'] == 'violated':
                log('VIOLATION property=%s replay=%s' % (pid, r['violation']['replay']))
                log('  obligation %s: %s' % (r['obligation'], r['violation']['description']))
                rcode = 1
        if rcode == 0 and any(r['verdict'] == 'inconclusive' for r in recs):
            for r in recs:
                if r['verdict'] == 'inconclusive': log('INCONCLUSIVE: property=%s obligation=%s %s' % (pid, r['obligation'], r.get('why', '')[:1500]))
            rcode = 2
        write_evidence(pid, P, tier if not only else 'partial', seed, recs, time.time() - t0, rcode)
        sys.exit(rcode)
    finally:
        if not keep: shutil.rmtree(scratch, ignore_errors=True)
        else: log('scratch kept at', scratch)

def do_replay(pid, P, path, scratch):
    j = json.load(open(path if os.path.isabs(path) else os.path.join(ROOT, path)))
    ob = [o for o in P['obligations'] if o['name'] == j['obligation']][0]
    wd = os.path.join(scratch, ob['name']); os.makedirs(wd, exist_ok=True)
    rc, o = native_replay(ob, wd, [tuple(v) for v in j['nondet_values']])
    print(o[-3000:])
    if reproduced_natively(rc, o):
        print('VIOLATION property=%s replay=%s' % (pid, path)); return 1
    print('replay did not reproduce (rc=%d)' % rc); return 0

def write_evidence(pid, P, tier, seed, recs, wall, rcode):
    proved = [r for r in recs if r['verdict'] == 'proved']
    nontriv = [r for r in recs if r.get('witness', {}).get('status') == 'reached' and r.get('solver', {}).get('props', 0) > 0]
    samples = []
    for r in recs:
        samples.append({k: r.get(k) for k in ('obligation', 'claim', 'bounds', 'verdict', 'harness', 'entry', 'unwindset', 'real_format', 'cuts', 'solver', 'witness', 'targets') if r.get(k) is not None})
    ev = {
        'property_id': pid, 'tier': tier, 'seed': seed, 'level': 'model_checking',
        'coverage': {
            'evaluations': sum(r.get('queries', 0) for r in recs),
            'distinct_nontrivial': len(nontriv),
            'rule': 'one evaluation = one SAT/SMT query discharged by cbmc on C regenerated from /repo\'s current source (main query + witness twin per obligation); an obligation counts as non-trivial when its witness twin (same harness ending in assert(false)) is REACHABLE under the same assumptions and bounds and the main query had >0 CBMC properties to decide',
            'samples': samples,
            'obligations': len(recs), 'discharged': len(proved),
            'cbmc_properties_decided': sum(r.get('solver', {}).get('props', 0) or 0 for r in recs),
            'solver_seconds': round(sum(r.get('solver', {}).get('seconds', 0) or 0 for r in recs), 1),
            'exhaustive': False,
            'explanation': 'bounded symbolic execution of the real functions (clang-14 IR -> C -> cbmc); every verdict holds for ALL inputs inside the stated bounds and says nothing outside them',
            'details': recs,
        },
        'assumptions': P.get('assumptions', []) + ['trusted base: clang-14 -O1 IR of the harness TU, engine/ir2c.py translation, engine/vf_rt.h + models/* (externals), cbmc 6.11 and its SAT back end'],
        'wall_s': round(wall, 2),
        'violations': sum(1 for r in recs if r['verdict'] == 'violated'),
        'exit_code': rcode,
    }
    # runs against another tree (VERIF_REPO=<scratch worktree>, used to try seeded changes) must not
    # overwrite the evidence of /repo
    evdir = os.path.join(ROOT, 'evidence') if REPO == '/repo' else '/var/tmp/verif_other_tree/evidence'
    if tier not in ('quick', 'thorough'):   # parked obligations and --only selections are development runs: never the committed evidence
        evdir = '/var/tmp/verif_experimental/evidence'
    os.makedirs(evdir, exist_ok=True)
    json.dump(ev, open(os.path.join(evdir, pid + '.json'), 'w'), indent=1, default=str)

if __name__ == '__main__':
    main()

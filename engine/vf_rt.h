/* Runtime for the C that ir2c.py generates, CBMC side.
 * Everything here is part of the trusted base: nondeterminism primitives, the
 * heap model, models of libc/libstdc++ externals, atomics with an
 * environment hook, intrinsics.  A `#define HAVE_f_<mangled>` tells ir2c that
 * an external has a model. */
#include <stdint.h>
#include <stddef.h>
typedef double real_t;
#ifndef REAL32_T
typedef float real32_t;
#else
typedef REAL32_T real32_t;
#endif
void *malloc(size_t); void free(void*); void* memcpy(void*,const void*,size_t); void* memmove(void*,const void*,size_t); void* memset(void*,int,size_t);
int memcmp(const void*, const void*, size_t);

/* ---- nondeterminism; the local is named vf_r so that the driver can read the
 * values, in call order, out of a CBMC trace and replay them natively ---- */
uint8_t nondet_uint8_t(void); uint16_t nondet_uint16_t(void); uint32_t nondet_uint32_t(void); uint64_t nondet_uint64_t(void);
real_t nondet_real(void); real32_t nondet_real32(void);
/* VF_KEEP: a property that depends on the value and always holds, so that --slice-formula keeps
 * every nondeterministic value in the equation and the counterexample trace stays replayable */
#define VF_KEEP(x) __CPROVER_assert(((uint64_t)(x) | 1u) != 0, "trace-keep")
uint8_t vf_nondet_u8(void){ uint8_t vf_r = nondet_uint8_t(); VF_KEEP(vf_r); return vf_r; }
uint32_t vf_nondet_u32(void){ uint32_t vf_r = nondet_uint32_t(); VF_KEEP(vf_r); return vf_r; }
uint64_t vf_nondet_u64(void){ uint64_t vf_r = nondet_uint64_t(); VF_KEEP(vf_r); return vf_r; }
/* Reduced-precision mode (-DVF_NARROW_T=__CPROVER_floatbv[w][m]): doubles keep
 * their 8-byte storage (so the byte offsets and sizes baked into the IR stay
 * valid) but every value is representable in the narrow IEEE format and every
 * arithmetic operation is rounded to it: exactly IEEE arithmetic at that
 * format.  Without VF_NARROW_T these are the plain double operations. */
#ifdef VF_NARROW_T
typedef VF_NARROW_T vf_narrow_t;
static inline real_t vf_narrow(real_t x){ return (real_t)(vf_narrow_t)x; }
static inline real_t vf_fadd(real_t a, real_t b){ return (real_t)((vf_narrow_t)a + (vf_narrow_t)b); }
static inline real_t vf_fsub(real_t a, real_t b){ return (real_t)((vf_narrow_t)a - (vf_narrow_t)b); }
static inline real_t vf_fmul(real_t a, real_t b){ return (real_t)((vf_narrow_t)a * (vf_narrow_t)b); }
static inline real_t vf_fdiv(real_t a, real_t b){ return (real_t)((vf_narrow_t)a / (vf_narrow_t)b); }
vf_narrow_t nondet_narrow(void);
real_t vf_nondet_f64(void){ vf_narrow_t h = nondet_narrow(); real_t vf_r = (real_t)h; { uint64_t vf_b; memcpy(&vf_b, &vf_r, 8); VF_KEEP(vf_b); } return vf_r; }
#else
static inline real_t vf_narrow(real_t x){ return x; }
static inline real_t vf_fadd(real_t a, real_t b){ return a + b; }
static inline real_t vf_fsub(real_t a, real_t b){ return a - b; }
static inline real_t vf_fmul(real_t a, real_t b){ return a * b; }
static inline real_t vf_fdiv(real_t a, real_t b){ return a / b; }
real_t vf_nondet_f64(void){ real_t vf_r = nondet_real(); { uint64_t vf_b; memcpy(&vf_b, &vf_r, 8); VF_KEEP(vf_b); } return vf_r; }
#endif
real32_t vf_nondet_f32(void){ real32_t vf_r = nondet_real32(); { uint32_t vf_b; memcpy(&vf_b, &vf_r, 4); VF_KEEP(vf_b); } return vf_r; }
static inline void vf_assume(unsigned char c){ __CPROVER_assume(c); }
static inline void vf_cut(void){ __CPROVER_assume(0); }
static inline void vf_unreachable(void){ __CPROVER_assert(0,"unreachable reached"); __CPROVER_assume(0); }

/* ---- heap ---- */
/* Allocation model.  A malloc of SYMBOLIC size makes CBMC fall back to array
 * theory for the block (quadratic constraints, the usual cause of out-of-memory
 * runs).  A harness may therefore name the sizes it expects
 * (-DVF_ALLOC_CLASSES='VF_C(4) VF_C(8) ...'): a request equal to a class gets
 * an exact, constant-size block (so heap bounds checks stay exact); with
 * -DVF_ALLOC_STRICT any other size is an assertion failure ("the bound of this
 * harness"), otherwise it falls back to the symbolic-size block. */
#ifndef VF_ALLOC_CLASSES
#define VF_ALLOC_CLASSES
#endif
#define VF_C(c) if (n == (c)) { unsigned char* q = malloc(c); __CPROVER_assume(q != 0); return q; }
static inline unsigned char* vf_new(uint64_t n){
  VF_ALLOC_CLASSES
#ifdef VF_ALLOC_STRICT
  if (n != 0) { __CPROVER_assert(0, "allocation size outside the harness's size classes (bound)"); __CPROVER_assume(0); }
#endif
  unsigned char* p = malloc(n ? n : 1); __CPROVER_assume(p != 0); return p; }
#define HAVE_f__Znwm
#define HAVE_f__Znam
#define HAVE_f__ZdlPv
#define HAVE_f__ZdaPv
#define HAVE_f__ZdlPvm
#define HAVE_f__ZdaPvm
#define HAVE_f_malloc
#define HAVE_f_free
#define HAVE_f_realloc
static inline unsigned char* f__Znwm(uint64_t n){ return vf_new(n); }
static inline unsigned char* f__Znam(uint64_t n){ return vf_new(n); }
static inline void f__ZdlPv(unsigned char* p){ free(p); }
static inline void f__ZdaPv(unsigned char* p){ free(p); }
static inline void f__ZdlPvm(unsigned char* p, uint64_t n){ free(p); }
static inline void f__ZdaPvm(unsigned char* p, uint64_t n){ free(p); }
static inline unsigned char* f_malloc(uint64_t n){ return vf_new(n); }
static inline void f_free(unsigned char* p){ free(p); }
static inline void* vf_alloca(uint64_t n){ return __builtin_alloca(n); }
static inline void* vf_memcpy(void* d, const void* s, uint64_t n){ if (n) memcpy(d,s,n); return d; }
static inline void* vf_memmove(void* d, const void* s, uint64_t n){ if (n) memmove(d,s,n); return d; }
static inline void* vf_memset(void* d, unsigned char c, uint64_t n){ if (n) memset(d,c,n); return d; }
#define HAVE_f_memcmp
#define HAVE_f_bcmp
static inline uint32_t f_memcmp(unsigned char* a, unsigned char* b, uint64_t n){ return (uint32_t)memcmp(a,b,n); }
static inline uint32_t f_bcmp(unsigned char* a, unsigned char* b, uint64_t n){ return (uint32_t)memcmp(a,b,n); }
#define HAVE_f_memchr

/* llvm.trap (__builtin_trap, e.g. a deleting destructor that must never run): reaching it is a failure */
static inline void vf_trap(void){ __CPROVER_assert(0, "llvm.trap reached"); __CPROVER_assume(0); }
/* ---- integer intrinsics ---- */
static inline uint32_t vf_ctlz_i32(uint32_t x, unsigned char z){ if(z) __CPROVER_assert(x!=0,"ctlz(0) is UB (__builtin_clz(0))"); if(x==0) return 32; return __builtin_clz(x); }
static inline uint64_t vf_ctlz_i64(uint64_t x, unsigned char z){ if(z) __CPROVER_assert(x!=0,"ctlz(0) is UB"); if(x==0) return 64; return __builtin_clzll(x); }
static inline uint32_t vf_cttz_i32(uint32_t x, unsigned char z){ if(z) __CPROVER_assert(x!=0,"cttz(0) is UB"); if(x==0) return 32; return __builtin_ctz(x); }
static inline uint64_t vf_cttz_i64(uint64_t x, unsigned char z){ if(z) __CPROVER_assert(x!=0,"cttz(0) is UB"); if(x==0) return 64; return __builtin_ctzll(x); }
static inline uint64_t vf_umax_i64(uint64_t a, uint64_t b){ return a>b?a:b; }
static inline uint64_t vf_umin_i64(uint64_t a, uint64_t b){ return a<b?a:b; }
static inline uint32_t vf_umax_i32(uint32_t a, uint32_t b){ return a>b?a:b; }
static inline uint32_t vf_umin_i32(uint32_t a, uint32_t b){ return a<b?a:b; }
static inline uint32_t vf_smax_i32(uint32_t a, uint32_t b){ return (int32_t)a>(int32_t)b?a:b; }
static inline uint32_t vf_smin_i32(uint32_t a, uint32_t b){ return (int32_t)a<(int32_t)b?a:b; }
static inline uint64_t vf_smax_i64(uint64_t a, uint64_t b){ return (int64_t)a>(int64_t)b?a:b; }
static inline uint64_t vf_smin_i64(uint64_t a, uint64_t b){ return (int64_t)a<(int64_t)b?a:b; }
static inline uint32_t vf_abs_i32(uint32_t x, unsigned char p){ if(p) __CPROVER_assert(x!=0x80000000u,"abs(INT_MIN) is UB"); return (int32_t)x<0 ? (uint32_t)(0u-x) : x; }
static inline uint64_t vf_abs_i64(uint64_t x, unsigned char p){ if(p) __CPROVER_assert(x!=0x8000000000000000ull,"abs(INT64_MIN) is UB"); return (int64_t)x<0 ? (0ull-x) : x; }
static inline uint32_t vf_bswap_i32(uint32_t x){ return __builtin_bswap32(x); }
static inline uint32_t vf_ctpop_i32(uint32_t x){ return __builtin_popcount(x); }
static inline uint64_t vf_ctpop_i64(uint64_t x){ return __builtin_popcountll(x); }
static inline uint32_t vf_fshl_i32(uint32_t a, uint32_t b, uint32_t c){ c&=31; return c? (a<<c)|(b>>(32-c)) : a; }
static inline uint64_t vf_fshl_i64(uint64_t a, uint64_t b, uint64_t c){ c&=63; return c? (a<<c)|(b>>(64-c)) : a; }
static inline void vf_nsw_add32(uint32_t a, uint32_t b){ int64_t r=(int64_t)(int32_t)a+(int64_t)(int32_t)b; __CPROVER_assert(r>=INT32_MIN&&r<=INT32_MAX,"signed overflow (add nsw)"); }
static inline void vf_nsw_sub32(uint32_t a, uint32_t b){ int64_t r=(int64_t)(int32_t)a-(int64_t)(int32_t)b; __CPROVER_assert(r>=INT32_MIN&&r<=INT32_MAX,"signed overflow (sub nsw)"); }
static inline void vf_nsw_mul32(uint32_t a, uint32_t b){ int64_t r=(int64_t)(int32_t)a*(int64_t)(int32_t)b; __CPROVER_assert(r>=INT32_MIN&&r<=INT32_MAX,"signed overflow (mul nsw)"); }
static inline void vf_nsw_add64(uint64_t a, uint64_t b){ __int128 r=(__int128)(int64_t)a+(__int128)(int64_t)b; __CPROVER_assert(r>=INT64_MIN&&r<=INT64_MAX,"signed overflow (add nsw)"); }
static inline void vf_nsw_sub64(uint64_t a, uint64_t b){ __int128 r=(__int128)(int64_t)a-(__int128)(int64_t)b; __CPROVER_assert(r>=INT64_MIN&&r<=INT64_MAX,"signed overflow (sub nsw)"); }
static inline void vf_nsw_mul64(uint64_t a, uint64_t b){ __int128 r=(__int128)(int64_t)a*(__int128)(int64_t)b; __CPROVER_assert(r>=INT64_MIN&&r<=INT64_MAX,"signed overflow (mul nsw)"); }
static inline void vf_div_chk32(uint32_t a, uint32_t b, int sgn){ __CPROVER_assert(b!=0,"integer division by zero"); if(sgn) __CPROVER_assert(!(a==0x80000000u && b==0xffffffffu),"INT_MIN / -1"); }
static inline void vf_div_chk64(uint64_t a, uint64_t b, int sgn){ __CPROVER_assert(b!=0,"integer division by zero"); if(sgn) __CPROVER_assert(!(a==0x8000000000000000ull && b==~0ull),"INT64_MIN / -1"); }
static inline void vf_shift_chk(uint64_t amt, unsigned bits){ __CPROVER_assert(amt < bits, "shift amount >= width (UB)"); }
static inline void vf_fptosi_chk32(real_t x){ __CPROVER_assert(x > -2147483649.0 && x < 2147483648.0, "float->int32 conversion out of range (UB)"); }
static inline void vf_fptosi_chk64(real_t x){ __CPROVER_assert(x >= -9223372036854775808.0 && x < 9223372036854775808.0, "float->int64 conversion out of range (UB)"); }
static inline void vf_fptoui_chk64(real_t x){ __CPROVER_assert(x > -1.0 && x < 18446744073709551616.0, "float->uint64 conversion out of range (UB)"); }
static inline void vf_fptoui_chk32(real_t x){ __CPROVER_assert(x > -1.0 && x < 4294967296.0, "float->uint32 conversion out of range (UB)"); }

/* ---- floating point intrinsics / libm ---- */
static inline real_t vf_fabs_f64(real_t x){ return x<0?-x:(x==0?(real_t)0.0:x); }
static inline real32_t vf_fabs_f32(real32_t x){ return x<0?-x:(x==0?(real32_t)0.0:x); }
static inline real_t vf_fmuladd_f64(real_t a, real_t b, real_t c){ return vf_fadd(vf_fmul(a,b),c); }
static inline real32_t vf_fmuladd_f32(real32_t a, real32_t b, real32_t c){ return a*b+c; }
static inline real_t vf_minnum_f64(real_t a, real_t b){ if(a!=a) return b; if(b!=b) return a; return a<b?a:b; }
static inline real_t vf_maxnum_f64(real_t a, real_t b){ if(a!=a) return b; if(b!=b) return a; return a>b?a:b; }
#define HAVE_f_fmin
#define HAVE_f_fmax
static inline real_t f_fmin(real_t a, real_t b){ return vf_minnum_f64(a,b); }
static inline real_t f_fmax(real_t a, real_t b){ return vf_maxnum_f64(a,b); }
#if 1
double sqrt(double); double floor(double); double ceil(double); double round(double); double trunc(double); double fabs(double);
#define HAVE_f_sqrt
#define HAVE_f_floor
#define HAVE_f_ceil
#define HAVE_f_round
static inline real_t vf_sqrt_f64(real_t x){ return vf_narrow(sqrt(x)); }
static inline real_t f_sqrt(real_t x){ return vf_narrow(sqrt(x)); }
static inline real_t vf_floor_f64(real_t x){ return floor(x); }
static inline real_t f_floor(real_t x){ return floor(x); }
static inline real_t vf_ceil_f64(real_t x){ return ceil(x); }
static inline real_t f_ceil(real_t x){ return ceil(x); }
static inline real_t vf_round_f64(real_t x){ return round(x); }
static inline real_t f_round(real_t x){ return round(x); }
static inline real_t vf_trunc_f64(real_t x){ return trunc(x); }
#endif

/* ---- atomics: sequentially consistent; vf_env() is the interference hook
 * (a no-op unless a harness model defines HAVE_vf_env), and one registered
 * byte address can be turned into the sticky cancellation oracle ---- */
#ifdef VF_HAVE_ENV
void vf_env(void);
#else
static inline void vf_env(void){}
#endif
/* a weak compare-exchange may fail spuriously; bounded so that retry loops terminate */
#ifndef VF_SPURIOUS
#define VF_SPURIOUS 1
#endif
unsigned vf_spurious_budget = VF_SPURIOUS;
unsigned char* vf_cancel_addr = 0; unsigned char vf_cancel_state = 0; uint32_t vf_cancel_reads = 0;
static inline void vf_register_cancel(unsigned char* p){ vf_cancel_addr = p; vf_cancel_state = 0; vf_cancel_reads = 0; }
static inline unsigned char vf_cancel_fired(void){ return vf_cancel_state; }
static inline uint8_t vf_atomic_load_8(uint8_t* p){
  vf_env();
  if (vf_cancel_addr != 0 && p == vf_cancel_addr) { vf_cancel_reads++; if (!vf_cancel_state) vf_cancel_state = vf_nondet_u8() & 1; return vf_cancel_state; }
  return *p; }
static inline uint32_t vf_atomic_load_32(uint32_t* p){ vf_env(); return *p; }
static inline uint64_t vf_atomic_load_64(uint64_t* p){ vf_env(); return *p; }
static inline void vf_atomic_store_8(uint8_t* p, uint8_t v){ vf_env(); *p = v; }
static inline void vf_atomic_store_32(uint32_t* p, uint32_t v){ vf_env(); *p = v; }
static inline void vf_atomic_store_64(uint64_t* p, uint64_t v){ vf_env(); *p = v; }
#define VF_RMW(N,T) \
static inline T vf_atomicrmw_add_##N(T* p, T v){ vf_env(); T o=*p; *p=o+v; return o; } \
static inline T vf_atomicrmw_sub_##N(T* p, T v){ vf_env(); T o=*p; *p=o-v; return o; } \
static inline T vf_atomicrmw_xchg_##N(T* p, T v){ vf_env(); T o=*p; *p=v; return o; } \
static inline T vf_atomicrmw_or_##N(T* p, T v){ vf_env(); T o=*p; *p=o|v; return o; } \
static inline T vf_atomicrmw_and_##N(T* p, T v){ vf_env(); T o=*p; *p=o&v; return o; } \
static inline T vf_atomicrmw_umax_##N(T* p, T v){ vf_env(); T o=*p; *p=o>v?o:v; return o; } \
static inline T vf_atomicrmw_umin_##N(T* p, T v){ vf_env(); T o=*p; *p=o<v?o:v; return o; } \
static inline unsigned char vf_cmpxchg_##N(T* p, T expected, T desired, int weak, T* old){ vf_env(); T o=*p; *old=o; \
  if (o != expected) return 0; if (weak && vf_spurious_budget > 0 && (vf_nondet_u8() & 1)) { vf_spurious_budget--; return 0; } *p = desired; return 1; }
VF_RMW(8,uint8_t) VF_RMW(16,uint16_t) VF_RMW(32,uint32_t) VF_RMW(64,uint64_t)
static inline uint32_t vf_atomicrmw_max_32(uint32_t* p, uint32_t v){ vf_env(); uint32_t o=*p; *p=(int32_t)o>(int32_t)v?o:v; return o; }
static inline uint32_t vf_atomicrmw_min_32(uint32_t* p, uint32_t v){ vf_env(); uint32_t o=*p; *p=(int32_t)o<(int32_t)v?o:v; return o; }

// Native replay runtime: the harness TU (real repo code, compiled by clang with
// ASan+UBSan through the same IR route and with the same cuts) is linked with
// this file.  Nondeterministic values come, in call order, from the file named
// by $VF_REPLAY (one "<kind> <hex>" per line, as written by the driver from a
// CBMC trace).  Exit codes: 0 run completed / reached a cut, 1 assertion
// failed (or a sanitizer aborted), 77 an assumption was false (the
// counterexample does not transfer to the native build).
#include <atomic>
#include <cstdint>
#include <cstdio>
#include <cstdlib>
#include <cstring>
#include <string>
#include <vector>
#include <unistd.h>

static std::vector<std::pair<std::string, uint64_t>> g_vals;
static size_t g_pos = 0;
static bool g_loaded = false;
static void load() {
  g_loaded = true;
  const char* f = getenv("VF_REPLAY");
  if (!f) return;
  FILE* fp = fopen(f, "r");
  if (!fp) { fprintf(stderr, "VF-NATIVE cannot open %s\n", f); _exit(3); }
  char kind[32]; unsigned long long v;
  while (fscanf(fp, "%31s %llx", kind, &v) == 2) g_vals.push_back({kind, v});
  fclose(fp);
}
static uint64_t next(const char* kind) {
  if (!g_loaded) load();
  if (g_pos >= g_vals.size()) { return 0; }
  auto& e = g_vals[g_pos++];
  if (e.first != kind) {
    fprintf(stderr, "VF-NATIVE kind mismatch at %zu: want %s got %s\n", g_pos - 1, kind, e.first.c_str());
    fflush(stderr); _exit(78);
  }
  return e.second;
}
extern "C" {
uint8_t vf_nondet_u8() { return (uint8_t)next("u8"); }
uint32_t vf_nondet_u32() { return (uint32_t)next("u32"); }
uint64_t vf_nondet_u64() { return next("u64"); }
double vf_nondet_f64() { uint64_t b = next("f64"); double d; memcpy(&d, &b, 8); return d; }
float vf_nondet_f32() { uint32_t b = (uint32_t)next("f32"); float d; memcpy(&d, &b, 4); return d; }
void vf_assume(bool c) { if (!c) { fprintf(stderr, "VF-NATIVE assumption false\n"); fflush(stderr); _exit(77); } }
void vf_assert_at(bool c, unsigned line) {
  if (!c) { fprintf(stderr, "VF-NATIVE-FAIL harness:%u\n", line); fflush(stderr); _exit(1); }
}
void vf_witness() {}
void vf_lib_assert_fail(unsigned fid, unsigned line) {
  fprintf(stderr, "VF-NATIVE-FAIL libassert:%u:%u\n", fid, line); fflush(stderr); _exit(1);
}
void vf_cut() { fprintf(stderr, "VF-NATIVE reached a cut\n"); fflush(stderr); _exit(0); }
void vf_unresolved_called() { fprintf(stderr, "VF-NATIVE reached a function defined in another translation unit (not linked into the replay)\n"); fflush(stderr); _exit(79); }
void vf_cut_exit() { fprintf(stderr, "VF-NATIVE reached a cut function\n"); fflush(stderr); _exit(0); }
unsigned char* vf_new(unsigned long n) { return static_cast<unsigned char*>(::operator new(n ? n : 1)); }
// cancellation oracle: the driver rewrites atomic i8 loads in the native IR
// into calls of vf_atomic_load_8 (same semantics as engine/vf_rt.h)
static unsigned char* g_cancel_addr = nullptr; static unsigned char g_cancel_state = 0;
void vf_register_cancel(unsigned char* p) { g_cancel_addr = p; g_cancel_state = 0; }
unsigned char vf_cancel_fired() { return g_cancel_state; }
uint8_t vf_atomic_load_8(uint8_t* p) {
  if (g_cancel_addr && p == g_cancel_addr) {
    if (!g_cancel_state) g_cancel_state = vf_nondet_u8() & 1;
    return g_cancel_state;
  }
  return reinterpret_cast<std::atomic<uint8_t>*>(p)->load();
}
// weak compare-exchange: same budgeted spurious failure as engine/vf_rt.h
static unsigned g_spurious_budget = 1;
bool vf_native_spurious(int weak) { if (weak && g_spurious_budget > 0 && (vf_nondet_u8() & 1)) { g_spurious_budget--; return true; } return false; }
void VF_ENTRY();
}
int main() {
  alarm(60);  // a replay that does not terminate is itself a finding ("loops forever")
  VF_ENTRY();
  fprintf(stderr, "VF-NATIVE run completed\n");
  return 0;
}

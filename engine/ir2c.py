#!/usr/bin/env python3
"""LLVM-14 textual IR (typed pointers) -> C for CBMC.
Usage: ir2c.py in.ll entry1,entry2 [--cut name,...] [--redirect from=to,...] [--meta out.json] > out.c
One C function per IR function reachable from the entry points.  Calls to a
`--cut` function become calls to a stub that ends the path (vf_cut), calls to
a `--redirect`ed function go to the named replacement (same lowered signature,
defined in the harness TU).  Everything else that has no body in the module is
an *external*: it is listed in the meta file and must be modelled in vf_rt.h /
models (HAVE_<name>) -- an un-modelled external gets a path-cutting stub and
the driver refuses to call the run conclusive.
"""
import re, sys, os, json

# ---------------------------------------------------------------- tokenizer
TOK = re.compile(r'''
   \s+ | ;[^\n]* |
  (?P<str>c"(?:[^"\\]|\\.)*") |
  (?P<qid>[%@]"(?:[^"\\]|\\.)*") |
  (?P<id>[%@][-a-zA-Z$._0-9]+) |
  (?P<meta>![-a-zA-Z$._0-9]*|!\{|!") |
  (?P<attr>\#\d+) |
  (?P<hex>0x[KLMH]?[0-9A-Fa-f]+) |
  (?P<num>-?\d+\.\d*(?:[eE][-+]?\d+)?|-?\d+) |
  (?P<word>[a-zA-Z_][a-zA-Z0-9_.]*) |
  (?P<dots>\.\.\.) |
  (?P<p>[()\[\]{}<>,=*:|])
''', re.X)

def tokenize(s):
    out = []; pos = 0
    while pos < len(s):
        m = TOK.match(s, pos)
        if not m: raise SyntaxError('tok: ' + s[pos:pos+40])
        pos = m.end()
        k = m.lastgroup
        if k: out.append((k, m.group(k)))
    return out

def cname(n):
    n = n[1:] if n[0] in '%@' else n
    if n.startswith('"'): n = n[1:-1]
    return re.sub(r'[^a-zA-Z0-9_]', lambda m: '_%02x' % ord(m.group()), n)

# ---------------------------------------------------------------- types
class T:
    def __init__(s, k, **kw): s.k = k; s.__dict__.update(kw)
    def __repr__(s): return 'T(%s)' % s.k
def isptr(t): return t.k == 'ptr'

class Parser:
    def __init__(s, toks): s.t = toks; s.i = 0
    def peek(s, o=0): return s.t[s.i+o] if s.i+o < len(s.t) else (None, None)
    def next(s): x = s.t[s.i]; s.i += 1; return x
    def accept(s, v):
        if s.peek()[1] == v: s.i += 1; return True
        return False
    def expect(s, v):
        x = s.next()
        if x[1] != v: raise SyntaxError('expected %r got %r at %r' % (v, x, s.t[max(0,s.i-8):s.i+4]))
    def skip_attrs(s):
        while True:
            k, v = s.peek()
            if k == 'word' and v in ATTRS:
                s.next()
                if v == 'align' and s.peek()[0] == 'num': s.next()
                if s.peek()[1] == '(':
                    d = 0
                    while True:
                        x = s.next()[1]
                        if x == '(': d += 1
                        if x == ')':
                            d -= 1
                            if d == 0: break
            elif k == 'attr': s.next()
            else: break
    def type(s):
        k, v = s.next()
        if k == 'word':
            if v == 'void': t = T('void')
            elif re.fullmatch(r'i\d+', v): t = T('int', bits=int(v[1:]))
            elif v in ('double', 'float', 'half', 'x86_fp80'): t = T('fp', name=v)
            elif v == 'opaque': t = T('opaque')
            elif v == 'label': t = T('label')
            elif v == 'metadata': t = T('metadata')
            elif v == 'token': t = T('token')
            else: raise SyntaxError('type word ' + v)
        elif k in ('id', 'qid') and v[0] == '%': t = T('named', name=cname(v))
        elif v == '{':
            el = []
            if not s.accept('}'):
                while True:
                    el.append(s.type())
                    if s.accept('}'): break
                    s.expect(',')
            t = T('struct', el=el, packed=False)
        elif v == '<':
            if s.peek()[1] == '{':
                t = s.type(); t.packed = True; s.expect('>')
            else:
                n = int(s.next()[1]); s.expect('x'); e = s.type(); s.expect('>')
                t = T('vec', n=n, e=e)
        elif v == '[':
            n = int(s.next()[1]); s.expect('x'); e = s.type(); s.expect(']')
            t = T('arr', n=n, e=e)
        else: raise SyntaxError('type tok %r' % v)
        while True:
            if s.accept('*'): t = T('ptr', to=t)
            elif s.peek()[1] == '(' :
                s.next(); args = []; va = False
                if not s.accept(')'):
                    while True:
                        if s.peek()[0] == 'dots': s.next(); va = True
                        else: args.append(s.type()); s.skip_attrs()
                        if s.accept(')'): break
                        s.expect(',')
                t = T('fn', ret=t, args=args, va=va)
            else: break
        return t

ATTRS = set('''noundef nonnull align dereferenceable dereferenceable_or_null noalias nocapture readonly writeonly
 readnone signext zeroext inreg sret byval returned immarg nofree nosync nounwind willreturn mustprogress noinline
 dso_local local_unnamed_addr unnamed_addr linkonce_odr internal private external weak weak_odr available_externally
 comdat hidden protected default constant inbounds nsw nuw exact tail musttail notail fastcc ccc coldcc nonlazybind
 argmemonly inaccessiblememonly inaccessiblemem_or_argmemonly speculatable cold noreturn uwtable optsize minsize
 nobuiltin builtin allocsize alwaysinline inlinehint norecurse nocallback noprofile thread_local swifterror nest
 volatile atomic unordered monotonic acquire release acq_rel seq_cst syncscope weak fast nnan ninf nsz arcp contract
 afn reassoc allockind allocptr alloc_family immutable'''.split())

class M: pass

def parse_module(text):
    mod = M(); mod.types = {}; mod.globals = {}; mod.funcs = {}; mod.decls = {}
    lines = text.split('\n'); i = 0
    while i < len(lines):
        ln = lines[i]
        if ln.startswith('%') and ' = type ' in ln:
            p = Parser(tokenize(ln)); name = cname(p.next()[1]); p.expect('='); p.expect('type')
            mod.types[name] = p.type()
        elif ln.startswith('@'):
            mod.globals_raw = getattr(mod, 'globals_raw', []); mod.globals_raw.append(ln)
        elif ln.startswith('declare '):
            p = Parser(tokenize(ln)); p.next(); p.skip_attrs(); ret = p.type(); p.skip_attrs(); name = p.next()[1]; p.expect('(')
            args = []; va = False
            if not p.accept(')'):
                while True:
                    if p.peek()[0] == 'dots': p.next(); va = True
                    else: args.append(p.type()); p.skip_attrs()
                    if p.accept(')'): break
                    p.expect(',')
            mod.decls[cname(name)] = (ret, name, args, va)
        elif ln.startswith('define '):
            body = []
            hdr = ln; i += 1
            while lines[i] != '}': body.append(lines[i]); i += 1
            parse_func(mod, hdr, body)
        i += 1
    return mod

def parse_func(mod, hdr, body):
    p = Parser(tokenize(hdr)); p.next(); p.skip_attrs(); ret = p.type(); p.skip_attrs()
    # ret may have swallowed nothing; name next
    name = p.next()[1]; p.expect('(')
    args = []
    if not p.accept(')'):
        while True:
            if p.peek()[0] == 'dots': p.next()
            else:
                t = p.type(); p.skip_attrs(); a = p.next()[1]; args.append((t, a))
            if p.accept(')'): break
            p.expect(',')
    f = M(); f.name = cname(name); f.ret = ret; f.args = args; f.blocks = []
    cur = None
    j = 0
    while j < len(body):
        ln = body[j]; j += 1
        if not ln.strip() or ln.strip().startswith(';'): continue
        m = re.match(r'^([-a-zA-Z$._0-9]+|"[^"]*"):', ln)
        if m:
            cur = (m.group(1), []); f.blocks.append(cur); continue
        if cur is None:
            cur = (str(len(args)), []); f.blocks.append(cur)
        while j < len(body) and re.match(r'^\s+(cleanup|catch |filter )', body[j]):   # landingpad clauses
            j += 1
        while j < len(body) and re.match(r'^\s+to label ', body[j]):   # invoke ... \n   to label %a unwind label %b
            ln += ' ' + body[j].strip(); j += 1
        if ln.strip().startswith('switch') and ln.rstrip().endswith('['):
            while not body[j].strip().startswith(']'): ln += ' ' + body[j]; j += 1
            ln += ' ]'; j += 1
        cur[1].append(ln)
    mod.funcs[f.name] = f

# ---------------------------------------------------------------- emit
class Emit:
    def __init__(s, mod, cuts):
        s.mod = mod; s.cuts = cuts; s.redirect = {}; s.out = []; s.anon = {}; s.typedefs = []; s.done_types = set(); s.fnptr = {}
        s.need = []
    def ctype(s, t):
        k = t.k
        if k == 'void': return 'void'
        if k == 'int':
            b = t.bits
            if b == 1: return 'unsigned char'
            for w in (8, 16, 32, 64):
                if b <= w: return 'uint%d_t' % w
            if b <= 128: return 'unsigned __int128'
            raise NotImplementedError('int%d' % b)
        if k == 'fp': return {'double': 'real_t', 'float': 'float', 'half': 'float', 'x86_fp80': 'long double'}[t.name]
        if k == 'named':
            s.use_named(t.name); return 'struct ' + t.name
        if k == 'ptr':
            to = t.to
            if to.k == 'fn': return s.fnptr_type(to)
            if to.k == 'void' or to.k == 'opaque': return 'void*'
            if to.k == 'int' and to.bits == 8: return 'unsigned char*'
            return s.ctype(to) + '*'
        if k in ('struct', 'arr', 'vec'): return s.anon_type(t)
        if k == 'fn': return s.fnptr_type(t)
        if k == 'opaque': return 'void'
        raise NotImplementedError(k)
    def key(s, t):
        k = t.k
        if k == 'int': return 'i%d' % t.bits
        if k == 'fp': return t.name
        if k == 'named': return 'N' + t.name
        if k == 'ptr': return 'P' + s.key(t.to)
        if k == 'struct': return ('Sp' if t.packed else 'S') + '_'.join(s.key(e) for e in t.el) + 'E'
        if k == 'arr': return 'A%d_%s' % (t.n, s.key(t.e))
        if k == 'vec': return 'V%d_%s' % (t.n, s.key(t.e))
        if k == 'fn': return 'F' + s.key(t.ret) + '_' + '_'.join(s.key(a) for a in t.args) + 'E'
        return k
    def fnptr_type(s, t):
        kk = 'fp_' + re.sub(r'[^A-Za-z0-9_]', '_', s.key(t))
        if kk not in s.fnptr:
            s.fnptr[kk] = 1
            args = ', '.join(s.ctype(a) for a in t.args) or 'void'
            if t.va: args += ', ...'
            s.typedefs.append('typedef %s (*%s)(%s);' % (s.ctype(t.ret), kk, args))
        return kk
    def anon_type(s, t):
        kk = 'anon_' + re.sub(r'[^A-Za-z0-9_]', '_', s.key(t))
        if kk not in s.anon:
            s.anon[kk] = t
            if t.k == 'struct':
                mem = ' '.join('%s f%d;' % (s.decl(e, ''), i) if False else s.decl(e, 'f%d' % i) + ';' for i, e in enumerate(t.el)) or 'char _e;'
                s.typedefs.append('struct %s { %s }%s;' % (kk, mem, ' __attribute__((packed))' if t.packed else ''))
            else:
                s.typedefs.append('struct %s { %s; };' % (kk, s.decl(t.e, 'a[%d]' % max(t.n,1))))
        return 'struct ' + kk
    def decl(s, t, name):
        return '%s %s' % (s.ctype(t), name)
    def use_named(s, n):
        if n in s.done_types: return
        s.done_types.add(n)
        t = s.mod.types.get(n)
        if t is None or t.k == 'opaque':
            s.typedefs.append('struct %s;' % n); return
        # forward declare first to allow self reference via pointers
        s.typedefs.append('struct %s;' % n)
        mem = ' '.join(s.decl(e, 'f%d' % i) + ';' for i, e in enumerate(t.el)) or 'char _e;'
        s.typedefs.append('struct %s { %s }%s;' % (n, mem, ' __attribute__((packed))' if t.packed else ''))
    def resolve(s, t):
        while t.k == 'named': t = s.mod.types[t.name]
        return t

class FnEmit:
    def __init__(s, E, f):
        s.E = E; s.f = f; s.vars = {}; s.lines = []; s.tmpn = 0; s.bcsrc = {}
    def v(s, name): return 'v_' + cname(name)
    def setvar(s, name, t):
        s.vars[s.v(name)] = t; return s.v(name)
    def const(s, p, t):
        """parse a value of type t from parser p, return C expr"""
        E = s.E
        k, v = p.next()
        if k in ('id', 'qid'):
            if v[0] == '%': return s.v(v)
            n = cname(v); E.need.append(n)
            if n in E.mod.funcs or n in E.mod.decls: return '(%s)&%s' % (E.ctype(t), fname(n)) if isptr(t) else fname(n)
            return '(%s)&g_%s' % (E.ctype(t), n)
        if k == 'num':
            if t.k == 'fp': return '((%s)%s)' % (E.ctype(t), v if ('.' in v or 'e' in v) else v + '.0')
            if t.k == 'int':
                iv = int(v)
                if iv < 0: iv += 1 << t.bits
                return '((%s)%dULL)' % (E.ctype(t), iv) if t.bits <= 64 else '((unsigned __int128)%dULL)' % iv
            if t.k == 'ptr': return '((%s)%s)' % (E.ctype(t), v)
        if k == 'hex':
            import struct
            h = v[2:]
            if h[0] in 'KLMH': raise NotImplementedError('fp80')
            d = struct.unpack('>d', bytes.fromhex(h.rjust(16, '0')))[0]
            if d != d: return '((%s)(0.0/0.0))' % E.ctype(t)
            if d in (float('inf'), float('-inf')): return '((%s)(%s1.0/0.0))' % (E.ctype(t), '-' if d < 0 else '')
            return '((%s)%s)' % (E.ctype(t), d.hex())
        if k == 'word':
            if v in ('true', 'false'): return '1' if v == 'true' else '0'
            if v == 'null': return '((%s)0)' % E.ctype(t)
            if v in ('undef', 'poison', 'zeroinitializer'):
                rt = E.resolve(t)
                if rt.k in ('struct', 'arr', 'vec'): return '((%s){0})' % E.ctype(t)
                return '((%s)0)' % E.ctype(t)
            if v in ('getelementptr', 'bitcast', 'inttoptr', 'ptrtoint'):
                return s.constexpr(p, v, t)
        raise SyntaxError('const %r %r' % (k, v))
    def constexpr(s, p, op, t):
        E = s.E
        if op == 'getelementptr':
            p.accept('inbounds'); p.expect('(')
            bt = p.type(); p.expect(','); pt = p.type(); base = s.const(p, pt)
            idx = []
            while p.accept(','):
                p.accept('inrange'); it = p.type(); idx.append((it, s.const(p, it)))
            p.expect(')')
            return s.gep(bt, base, idx, t)[0]
        p.expect('('); ft = p.type(); val = s.const(p, ft); p.expect('to'); tt = p.type(); p.expect(')')
        return '((%s)%s)' % (E.ctype(tt), val)
    def gep(s, bt, base, idx, rt):
        E = s.E
        expr = '(%s)' % base
        first = True; cur = bt
        for it, iv in idx:
            sidx = '(int64_t)%s' % iv if it.bits == 64 else '(int64_t)(int%d_t)%s' % (it.bits, iv)
            if first:
                expr = '(%s + %s)' % (expr, sidx); first = False;
                cont = True
            else:
                r = E.resolve(cur)
                if r.k == 'struct':
                    n = int(re.search(r'(\d+)ULL', iv).group(1))
                    expr = '(&%s->f%d)' % (expr, n); cur = r.el[n]
                elif r.k in ('arr', 'vec'):
                    expr = '(&%s->a[0] + %s)' % (expr, sidx); cur = r.e
                else: raise NotImplementedError('gep into ' + r.k)
        return '((%s)%s)' % (E.ctype(rt), expr) if rt else expr, cur

def fname(n):
    return n if n.startswith('h_') or n.startswith('vf_') else 'f_' + n

INTR = {'llvm.fabs.f64': 'vf_fabs', 'llvm.sqrt.f64': 'vf_sqrt', 'sqrt': 'vf_sqrt'}

def emit_function(E, f):
    s = FnEmit(E, f)
    L = s.lines
    for t, a in f.args: s.setvar(a, t)
    argvars = set(s.v(a) for t, a in f.args)
    blocks = f.blocks
    # reorder blocks in reverse post-order so that only real back edges jump backwards
    succ = {}
    for bname, ins in blocks:
        last = ins[-1] if ins else ''
        succ[bname] = [m[1:] if m[0] == '%' else m for m in re.findall(r'label (%[-a-zA-Z$._0-9]+|%"[^"]*")', last)]
    seen = set(); post = []
    def dfs(b):
        stack = [(b, iter(succ.get(b, [])))]; seen.add(b)
        while stack:
            node, it = stack[-1]
            adv = False
            for nb in it:
                nb = nb.strip('"')
                if nb not in seen and nb in succ:
                    seen.add(nb); stack.append((nb, iter(succ.get(nb, [])))); adv = True; break
            if not adv: post.append(node); stack.pop()
    if blocks:
        dfs(blocks[0][0])
        order = post[::-1]
        bmap = dict(blocks)
        blocks = [(b, bmap[b]) for b in order] + [(b, i) for b, i in blocks if b not in seen]
    labels = {b[0]: 'L_' + cname('%' + b[0]) for b in blocks}
    # first pass: collect phis
    phis = {}  # block -> list of (dest, type, [(val, pred)])
    parsed = []
    for bname, ins in blocks:
        pl = []
        for ln in ins:
            toks = tokenize(ln)
            # strip metadata suffix
            for i, (k, v) in enumerate(toks):
                if k == 'meta' and i > 0 and toks[i-1][1] == ',': toks = toks[:i-1]; break
            pl.append(toks)
        parsed.append((bname, pl))
    def val(p, t): return s.const(p, t)
    body = []
    for bname, pl in parsed:
        body.append('%s: ;' % labels[bname])
        for toks in pl:
            p = Parser(toks)
            import sys as _s; _s._cur = toks
            dest = None
            if p.peek(1)[1] == '=':
                dest = p.next()[1]; p.next()
            k, op = p.next()
            def D(t):
                return s.setvar(dest, t)
            while op in ('tail', 'musttail', 'notail'): k, op = p.next()
            if op == 'phi':
                t = p.type(); inc = []
                while True:
                    p.expect('['); v = val(p, t); p.expect(','); pred = p.next()[1]; p.expect(']')
                    inc.append((v, pred[1:]))
                    if not p.accept(','): break
                phis.setdefault(bname, []).append((D(t), t, inc))
            elif op in ('add', 'sub', 'mul', 'udiv', 'sdiv', 'urem', 'srem', 'shl', 'lshr', 'ashr', 'and', 'or', 'xor'):
                flags = []
                while p.peek()[1] in ('nsw', 'nuw', 'exact'): flags.append(p.next()[1])
                t = p.type(); a = val(p, t); p.expect(','); b = val(p, t)
                ct = E.ctype(t); bits = t.bits
                sg = 'int%d_t' % (8 if bits <= 8 else 16 if bits <= 16 else 32 if bits <= 32 else 64)
                mask = '' if bits in (8, 16, 32, 64) else ' & %dULL' % ((1 << bits) - 1)
                o = {'add': '+', 'sub': '-', 'mul': '*', 'and': '&', 'or': '|', 'xor': '^'}
                if op in o: e = '(%s)(%s %s %s)' % (ct, a, o[op], b)
                elif op == 'udiv': e = '(%s)(%s / %s)' % (ct, a, b)
                elif op == 'urem': e = '(%s)(%s %% %s)' % (ct, a, b)
                elif op == 'sdiv': e = '(%s)((%s)%s / (%s)%s)' % (ct, sg, a, sg, b)
                elif op == 'srem': e = '(%s)((%s)%s %% (%s)%s)' % (ct, sg, a, sg, b)
                elif op == 'shl': e = '(%s)(%s << %s)' % (ct, a, b)
                elif op == 'lshr': e = '(%s)(%s >> %s)' % (ct, a, b)
                elif op == 'ashr': e = '(%s)((%s)%s >> %s)' % (ct, sg, a, b)
                if bits == 1 and op in ('add', 'sub', 'mul'): e = '(%s & 1)' % e
                if 'nsw' in flags and op in ('add', 'sub', 'mul') and bits in (32, 64):
                    body.append('vf_nsw_%s%d(%s, %s);' % (op, bits, a, b))
                body.append('%s = %s%s;' % (D(t), e, mask))
            elif op in ('fadd', 'fsub', 'fmul', 'fdiv', 'frem'):
                while p.peek()[1] in ATTRS: p.next()
                t = p.type(); a = val(p, t); p.expect(','); b = val(p, t)
                o = {'fadd': '+', 'fsub': '-', 'fmul': '*', 'fdiv': '/'}
                if t.k == 'fp' and t.name == 'double' and op in o:
                    body.append('%s = vf_%s(%s, %s);' % (D(t), op, a, b))
                else:
                    body.append('%s = %s %s %s;' % (D(t), a, o[op], b))
            elif op == 'fneg':
                while p.peek()[1] in ATTRS: p.next()
                t = p.type(); a = val(p, t); body.append('%s = -%s;' % (D(t), a))
            elif op == 'icmp':
                pred = p.next()[1]; t = p.type(); a = val(p, t); p.expect(','); b = val(p, t)
                if isptr(t): a = '(uintptr_t)' + a; b = '(uintptr_t)' + b; sg = 'intptr_t'
                else:
                    bits = t.bits; sg = 'int%d_t' % (8 if bits <= 8 else 16 if bits <= 16 else 32 if bits <= 32 else 64)
                o = {'eq': '==', 'ne': '!=', 'ugt': '>', 'uge': '>=', 'ult': '<', 'ule': '<='}
                so = {'sgt': '>', 'sge': '>=', 'slt': '<', 'sle': '<='}
                if pred in o: e = '%s %s %s' % (a, o[pred], b)
                else: e = '(%s)%s %s (%s)%s' % (sg, a, so[pred], sg, b)
                body.append('%s = (%s);' % (D(T('int', bits=1)), e))
            elif op == 'fcmp':
                while p.peek()[1] in ATTRS: p.next()
                pred = p.next()[1]; t = p.type(); a = val(p, t); p.expect(','); b = val(p, t)
                o = {'eq': '==', 'ne': '!=', 'gt': '>', 'ge': '>=', 'lt': '<', 'le': '<='}
                un = '(%s != %s || %s != %s)' % (a, a, b, b)
                if pred == 'ord': e = '!' + un
                elif pred == 'uno': e = un
                elif pred == 'true': e = '1'
                elif pred == 'false': e = '0'
                elif pred[0] == 'o': e = '(!%s && %s %s %s)' % (un, a, o[pred[1:]], b)
                else: e = '(%s || %s %s %s)' % (un, a, o[pred[1:]], b)
                body.append('%s = %s;' % (D(T('int', bits=1)), e))
            elif op == 'select':
                while p.peek()[1] in ATTRS: p.next()
                ct = p.type(); c = val(p, ct); p.expect(','); t = p.type(); a = val(p, t); p.expect(','); t2 = p.type(); b = val(p, t2)
                body.append('%s = %s ? %s : %s;' % (D(t), c, a, b))
            elif op in ('zext', 'sext', 'trunc', 'fptosi', 'fptoui', 'sitofp', 'uitofp', 'fpext', 'fptrunc', 'bitcast', 'ptrtoint', 'inttoptr', 'addrspacecast'):
                ft = p.type(); a = val(p, ft); p.expect('to'); tt = p.type(); ct = E.ctype(tt)
                if op == 'sext':
                    sf = 'int%d_t' % (8 if ft.bits <= 8 else 16 if ft.bits <= 16 else 32 if ft.bits <= 32 else 64)
                    if ft.bits == 1: e = '(%s)(%s ? -1 : 0)' % (ct, a)
                    else: e = '(%s)(int64_t)(%s)%s' % (ct, sf, a)
                elif op == 'trunc':
                    e = '(%s)(%s%s)' % (ct, a, '' if tt.bits in (8, 16, 32, 64) else ' & %dULL' % ((1 << tt.bits) - 1))
                elif op == 'sitofp':
                    sf = 'int%d_t' % (8 if ft.bits <= 8 else 16 if ft.bits <= 16 else 32 if ft.bits <= 32 else 64)
                    e = '(%s)(%s)%s' % (ct, sf, a)
                    if tt.name == 'double': e = 'vf_narrow(%s)' % e
                elif op == 'uitofp':
                    e = '(%s)%s' % (ct, a)
                    if tt.name == 'double': e = 'vf_narrow(%s)' % e
                elif op == 'fpext':
                    e = '(%s)%s' % (ct, a)
                    if tt.name == 'double': e = 'vf_narrow(%s)' % e
                elif op == 'fptosi':
                    sf = 'int%d_t' % (8 if tt.bits <= 8 else 16 if tt.bits <= 16 else 32 if tt.bits <= 32 else 64)
                    if tt.bits in (32, 64): body.append('vf_fptosi_chk%d(%s);' % (tt.bits, a))
                    e = '(%s)(%s)%s' % (ct, sf, a)
                elif op == 'fptoui':
                    if tt.bits in (32, 64): body.append('vf_fptoui_chk%d(%s);' % (tt.bits, a))
                    e = '(%s)%s' % (ct, a)
                elif op == 'bitcast' and not isptr(ft):
                    tmp = 'bc%d' % s.tmpn; s.tmpn += 1
                    body.append('{ %s %s = %s; memcpy(&%s, &%s, sizeof(%s)); }' % (E.ctype(ft), tmp, a, D(tt), tmp, D(tt))); continue
                else: e = '(%s)%s' % (ct, a)
                if op == 'bitcast' and isptr(ft) and dest:
                    s.bcsrc[s.v(dest)] = ft
                    if a not in s.bcsrc: s.bcsrc[a] = tt
                body.append('%s = %s;' % (D(tt), e))
            elif op == 'getelementptr':
                p.accept('inbounds'); bt = p.type(); p.expect(','); pt = p.type(); base = val(p, pt); idx = []
                while p.accept(','):
                    it = p.type(); idx.append((it, val(p, it)))
                expr, cur = s.gep(bt, base, idx, None)
                rt = T('ptr', to=cur)
                body.append('%s = (%s)%s;' % (D(rt), E.ctype(rt), expr))
            elif op == 'load':
                at = p.accept('atomic'); p.accept('volatile'); t = p.type(); p.expect(','); pt = p.type(); a = val(p, pt)
                if at and t.k == 'int': body.append('%s = vf_atomic_load_%d((%s*)%s);' % (D(t), t.bits, E.ctype(t), a))
                else: body.append('%s = *(%s*)%s;' % (D(t), E.ctype(t), a))
            elif op == 'store':
                at = p.accept('atomic'); p.accept('volatile'); t = p.type(); a = val(p, t); p.expect(','); pt = p.type(); b = val(p, pt)
                if at and t.k == 'int': body.append('vf_atomic_store_%d((%s*)%s, %s);' % (t.bits, E.ctype(t), b, a))
                else: body.append('*(%s*)%s = %s;' % (E.ctype(t), b, a))
            elif op == 'alloca':
                t = p.type(); n = None
                if p.accept(','):
                    if p.peek()[1] != 'align': it = p.type(); n = val(p, it)
                rt = T('ptr', to=t); sv = 'al%d' % s.tmpn; s.tmpn += 1
                if n: body.append('%s = (%s)vf_alloca(sizeof(%s) * %s);' % (D(rt), E.ctype(rt), E.ctype(t), n))
                else:
                    s.vars[sv] = t; body.append('%s = &%s;' % (D(rt), sv))
            elif op in ('call', 'invoke'):
                p.skip_attrs(); rt = p.type(); p.skip_attrs()
                k2, callee = p.next()
                fty = None
                if rt.k == 'ptr' and rt.to.k == 'fn' and False: pass
                if rt.k == 'fn': fty = rt; rt = fty.ret
                p.expect('('); args = []; aligns = []
                if not p.accept(')'):
                    while True:
                        at = p.type()
                        al_ = 0
                        for q_ in range(p.i, min(p.i + 12, len(p.t) - 1)):
                            if p.t[q_][1] == 'align' and p.t[q_ + 1][0] == 'num': al_ = int(p.t[q_ + 1][1]); break
                            if p.t[q_][1] in (',', ')') or p.t[q_][0] in ('id', 'qid'): break
                        aligns.append(al_)
                        p.skip_attrs()
                        if at.k == 'metadata':
                            while p.peek()[1] not in (',', ')'): p.next()
                            args.append(None)
                        else: args.append((at, val(p, at)))
                        if p.accept(')'): break
                        p.expect(',')
                if callee[0] == '@':
                    n = cname(callee); raw = callee[1:]
                    if raw.startswith('llvm.lifetime') or raw.startswith('llvm.experimental.noalias') or raw.startswith('llvm.dbg'): continue
                    if raw.startswith('llvm.assume'): continue
                    if raw.startswith('llvm.memcpy') or raw.startswith('llvm.memmove'):
                        args = args[:3]
                        cal = 'vf_memcpy' if raw.startswith('llvm.memcpy') else 'vf_memmove'
                        if not re.fullmatch(r'\(\(uint64_t\)\d+ULL\)', args[2][1]):
                            # symbolic length: CBMC's memcpy/memmove model havocs the destination.
                            # Copy element-wise in the type the pointers were cast from.
                            et = None
                            for a_ in (args[0][1], args[1][1]):
                                ft_ = s.bcsrc.get(a_)
                                if ft_ is not None and ft_.to.k not in ('void', 'opaque', 'fn') and not (ft_.to.k == 'int' and ft_.to.bits == 8):
                                    et = ft_.to; break
                            al_ = min([x for x in aligns[:2] if x] or [1])
                            ect = E.ctype(et) if et is not None else {1: 'unsigned char', 2: 'uint16_t', 4: 'uint32_t'}.get(al_, 'uint64_t')
                            mv = 1 if cal == 'vf_memmove' else 0
                            body.append('{ %s* d_ = (%s*)%s; %s* s_ = (%s*)%s; uint64_t n_ = %s / sizeof(%s); __CPROVER_assert(%s %% sizeof(%s) == 0, "memcpy length multiple of element size");'
                                        ' if (!%d || (uintptr_t)d_ <= (uintptr_t)s_) { for (uint64_t i_ = 0; i_ < n_; i_++) d_[i_] = s_[i_]; } else { for (uint64_t i_ = n_; i_-- > 0;) d_[i_] = s_[i_]; } }'
                                        % (ect, ect, args[0][1], ect, ect, args[1][1], args[2][1], ect, args[2][1], ect, mv))
                            continue
                    elif raw.startswith('llvm.memset'):
                        cal = 'vf_memset'; args = args[:3]
                        if not re.fullmatch(r'\(\(uint64_t\)\d+ULL\)', args[2][1]):
                            ft_ = s.bcsrc.get(args[0][1]); et = None
                            if ft_ is not None and ft_.to.k not in ('void', 'opaque', 'fn') and not (ft_.to.k == 'int' and ft_.to.bits == 8): et = ft_.to
                            ect = E.ctype(et) if et is not None else 'unsigned char'
                            body.append('{ %s* d_ = (%s*)%s; uint64_t n_ = %s / sizeof(%s); __CPROVER_assert(%s %% sizeof(%s) == 0, "memset length multiple of element size");'
                                        ' for (uint64_t i_ = 0; i_ < n_; i_++) memset(&d_[i_], %s, sizeof(%s)); }' % (ect, ect, args[0][1], args[2][1], ect, args[2][1], ect, args[1][1], ect))
                            continue
                    elif re.match(r'llvm\.(u|s)(mul|add|sub)\.with\.overflow\.i(32|64)', raw):
                        mm = re.match(r'llvm\.(u|s)(mul|add|sub)\.with\.overflow\.i(32|64)', raw)
                        sg_, op_, w_ = mm.group(1), mm.group(2), int(mm.group(3))
                        d = D(rt); big = '__int128' if w_ == 64 else 'int64_t'
                        cs = (lambda x: '(%s)(int%d_t)%s' % (big, w_, x)) if sg_ == 's' else (lambda x: '(unsigned %s)%s' % (big, x) if w_ == 64 else '(uint64_t)%s' % x)
                        o_ = {'mul': '*', 'add': '+', 'sub': '-'}[op_]
                        full = '(%s %s %s)' % (cs(args[0][1]), o_, cs(args[1][1]))
                        body.append('%s.f0 = (uint%d_t)(%s %s %s); %s.f1 = ((%s)(%sint%d_t)%s.f0 != %s);' % (d, w_, args[0][1], o_, args[1][1], d, ('unsigned ' + big if sg_ == 'u' and w_ == 64 else ('uint64_t' if sg_ == 'u' else big)), 'u' if sg_ == 'u' else '', w_, d, full))
                        continue
                    elif raw.startswith('llvm.'): cal = 'vf_' + re.sub(r'[^a-z0-9]', '_', raw[5:]); args = [a for a in args if a]
                    else:
                        n = E.redirect.get(n, n)
                        cal = fname(n); E.need.append(n)
                    a = ', '.join(x[1] for x in args if x)
                    e = '%s(%s)' % (cal, a)
                    if raw == 'vf_assert_at':
                        m_ = re.fullmatch(r'\(\(uint32_t\)(\d+)ULL\)', args[1][1])
                        ln_ = m_.group(1) if m_ else 'merged'   # clang may merge two assertion sites into one call
                        body.append('__CPROVER_assert(%s, "harness:%s");' % (args[0][1], ln_)); continue
                    if raw == 'vf_witness':
                        body.append('__CPROVER_assert(0, "WITNESS");'); continue
                    if raw == 'vf_lib_assert_fail':
                        fid_ = re.search(r'(\d+)ULL', args[0][1]).group(1); ln_ = re.search(r'(\d+)ULL', args[1][1]).group(1)
                        body.append('__CPROVER_assert(0, "libassert:%s:%s"); __CPROVER_assume(0);' % (fid_, ln_)); continue
                else:
                    a = ', '.join(x[1] for x in args if x)
                    e = '(%s)(%s)' % (s.v(callee), a)
                if rt.k == 'void' or dest is None: body.append(e + ';')
                else: body.append('%s = %s;' % (D(rt), e))
                if op == 'invoke':
                    p.expect('to'); p.expect('label'); l = p.next()[1]
                    body.append(('EDGE', bname, l[1:]))
            elif op == 'ret':
                t = p.type()
                if t.k == 'void': body.append('return;')
                else: body.append('return %s;' % val(p, t))
            elif op == 'br':
                if p.peek()[1] == 'label':
                    p.next(); l = p.next()[1]; body.append(('EDGE', bname, l[1:]))
                else:
                    t = p.type(); c = val(p, t); p.expect(','); p.expect('label'); a = p.next()[1]; p.expect(','); p.expect('label'); b = p.next()[1]
                    body.append(('CBR', bname, c, a[1:], b[1:]))
            elif op == 'switch':
                t = p.type(); c = val(p, t); p.expect(','); p.expect('label'); d = p.next()[1]; p.expect('[')
                cases = []
                while not p.accept(']'):
                    ct_ = p.type(); cv = val(p, ct_); p.expect(','); p.expect('label'); l = p.next()[1]; cases.append((cv, l[1:]))
                body.append(('SW', bname, c, d[1:], cases))
            elif op == 'unreachable': body.append('vf_unreachable();')
            elif op == 'extractvalue':
                t = p.type(); a = val(p, t); cur = t; e = a
                while p.accept(','):
                    n = int(p.next()[1]); r = E.resolve(cur)
                    if r.k == 'struct': e += '.f%d' % n; cur = r.el[n]
                    else: e += '.a[%d]' % n; cur = r.e
                body.append('%s = %s;' % (D(cur), e))
            elif op == 'insertvalue':
                t = p.type(); a = val(p, t); p.expect(','); et = p.type(); ev = val(p, et); e = ''; cur = t
                while p.accept(','):
                    n = int(p.next()[1]); r = E.resolve(cur)
                    if r.k == 'struct': e += '.f%d' % n; cur = r.el[n]
                    else: e += '.a[%d]' % n; cur = r.e
                d = D(t); body.append('%s = %s; %s%s = %s;' % (d, a, d, e, ev))
            elif op == 'freeze':
                t = p.type(); body.append('%s = %s;' % (D(t), val(p, t)))
            elif op == 'atomicrmw':
                p.accept('volatile'); o = p.next()[1]; pt = p.type(); a = val(p, pt); p.expect(','); t = p.type(); b = val(p, t)
                body.append('%s = vf_atomicrmw_%s_%d((%s*)%s, %s);' % (D(t), o, t.bits, E.ctype(t), a, b))
            elif op == 'cmpxchg':
                weak_ = p.accept('weak'); p.accept('volatile'); pt = p.type(); a = val(p, pt); p.expect(','); t = p.type(); c = val(p, t); p.expect(','); t2 = p.type(); n = val(p, t2)
                rt = T('struct', el=[t, T('int', bits=1)], packed=False)
                d = D(rt); body.append('%s.f1 = vf_cmpxchg_%d((%s*)%s, %s, %s, %d, &%s.f0);' % (d, t.bits, E.ctype(t), a, c, n, 1 if weak_ else 0, d))
            elif op == 'fence': pass
            elif op in ('landingpad', 'resume', 'cleanuppad'): body.append('vf_unreachable();')
            else: raise NotImplementedError('op ' + op + ' in ' + f.name)
    # resolve edges with phi copies
    def edge(frm, to):
        ph = phis.get(to, [])
        out = []
        if len(ph) == 1:
            d, t, inc = ph[0]; v = [x for x, pr in inc if pr == frm][0]; out.append('%s = %s;' % (d, v))
        elif ph:
            tmps = []
            for i, (d, t, inc) in enumerate(ph):
                v = [x for x, pr in inc if pr == frm][0]
                tn = 'pt%d' % s.tmpn; s.tmpn += 1; s.vars[tn] = t
                out.append('%s = %s;' % (tn, v)); tmps.append((d, tn))
            for d, tn in tmps: out.append('%s = %s;' % (d, tn))
        out.append('goto %s;' % labels[to])
        return ' '.join(out)
    s.edge = lambda frm, to, labels=None, phis_of=None: edge(frm, to)
    final = []
    for b in body:
        if isinstance(b, tuple):
            if b[0] == 'EDGE': final.append('{ %s }' % edge(b[1], b[2]))
            elif b[0] == 'CBR': final.append('if (%s) { %s } else { %s }' % (b[2], edge(b[1], b[3]), edge(b[1], b[4])))
            elif b[0] == 'SW':
                x = 'switch (%s) {' % b[2]
                for cv, l in b[4]: x += ' case %s: { %s }' % (cv, edge(b[1], l))
                x += ' default: { %s } }' % edge(b[1], b[3]); final.append(x)
        else: final.append(b)
    args = ', '.join(E.decl(t, s.v(a)) for t, a in f.args) or 'void'
    hdr = '%s %s(%s)' % (E.ctype(f.ret), fname(f.name), args)
    decls = ['  %s;' % E.decl(t, n) for n, t in s.vars.items() if n not in argvars]
    return hdr, hdr + ' {\n' + '\n'.join(decls) + '\n  ' + '\n  '.join(final) + '\n}\n'

def main():
    text = open(sys.argv[1]).read()
    entries = sys.argv[2].split(',')
    cuts = set(); redirect = {}; metaf = None
    if '--cut' in sys.argv: cuts = set(x for x in sys.argv[sys.argv.index('--cut') + 1].split(',') if x)
    fnptr_rx = None
    if '--fnptr-defs' in sys.argv:
        v = sys.argv[sys.argv.index('--fnptr-defs') + 1]
        if v: fnptr_rx = re.compile(v)
    if '--redirect' in sys.argv:
        for kv in sys.argv[sys.argv.index('--redirect') + 1].split(','):
            if kv: a, b = kv.split('='); redirect[a] = b
    if '--meta' in sys.argv: metaf = sys.argv[sys.argv.index('--meta') + 1]
    forbid = set()
    if '--forbid' in sys.argv: forbid = set(x for x in sys.argv[sys.argv.index('--forbid') + 1].split(',') if x)
    cuts |= forbid
    models = []
    if '--models' in sys.argv: models = [x for x in sys.argv[sys.argv.index('--models') + 1].split(',') if x]
    mod = parse_module(text)
    E = Emit(mod, cuts); E.redirect = redirect
    done = {}; work = list(entries); order = []; callgraph = {}
    def drain():
        while work:
            n = work.pop()
            if n in done: continue
            if n not in mod.funcs or n in cuts:
                done[n] = None; continue
            E.need = []
            hdr, code = emit_function(E, mod.funcs[n])
            done[n] = (hdr, code); order.append(n)
            callgraph[n] = set(E.need)
            work.extend(E.need)
    drain()
    print('#include "vf_rt.h"')
    print('\n'.join(E.typedefs)); E.typedefs = []
    ext = [n for n in done if done[n] is None]
    # globals
    gl = {}
    for ln in getattr(mod, 'globals_raw', []):
        m = re.match(r'^(@"[^"]*"|@[-a-zA-Z$._0-9]+) = (.*)$', ln)
        gl[cname(m.group(1))] = m.group(2)
    fe = FnEmit(E, None)
    gdefs = []
    seen = set()
    def emit_global(n):
        if n in seen or n not in gl: return
        seen.add(n)
        rest = gl[n]
        p = Parser(tokenize(rest))
        ext = False
        while p.peek()[1] not in ('global', 'constant'):
            if p.peek()[1] == 'external': ext = True
            p.next()
        p.next(); t = p.type()
        if ext or p.peek()[0] is None or p.peek()[1] == ',':
            gdefs.append('extern %s;' % E.decl(t, 'g_' + n)); return
        E.need = []
        init = cinit(fe, p, t)
        for d in list(E.need):
            if d in gl: emit_global(d)
            elif d not in done and fnptr_rx is not None and fnptr_rx.search(d):
                work.append(d)                   # --fnptr-defs: translate it (e.g. shared_ptr control-block virtuals)
            elif d not in done: done[d] = None   # a function named only by an initializer (vtable slot): never called
                                                 # directly; it gets an 'unmodelled' stub whose body is assert(false), so an
                                                 # indirect call that does reach it is reported instead of silently skipped
        gdefs.append('%s = %s;' % (E.decl(t, 'g_' + n), init))
    def cinit(fe, p, t):
        k, v = p.peek()
        rt = E.resolve(t)
        if v in ('zeroinitializer', 'undef', 'poison'):
            p.next(); return '{0}' if rt.k in ('struct', 'arr', 'vec') else '0'
        if k == 'str':
            p.next(); raw = v[2:-1]; bs = []
            i = 0
            while i < len(raw):
                if raw[i] == '\\': bs.append(int(raw[i+1:i+3], 16)); i += 3
                else: bs.append(ord(raw[i])); i += 1
            return '{ {' + ','.join(map(str, bs)) + '} }'
        if rt.k == 'struct' and v in ('{', '<'):
            pk = p.accept('<'); p.expect('{'); parts = []
            if not p.accept('}'):
                while True:
                    et = p.type(); parts.append(cinit(fe, p, et))
                    if p.accept('}'): break
                    p.expect(',')
            if pk: p.expect('>')
            return '{' + ', '.join(parts) + '}'
        if rt.k in ('arr', 'vec') and v in ('[', '<'):
            p.next(); parts = []
            while True:
                et = p.type(); parts.append(cinit(fe, p, et))
                if p.accept(']') or p.accept('>'): break
                p.expect(',')
            return '{ {' + ', '.join(parts) + '} }'
        return fe.const(p, t)
    while True:
        for n in list(done):
            if done[n] is None and n in gl: emit_global(n)
        if not work: break
        drain()   # functions reachable only through initializers; they may need further globals
    # anything referenced from functions
    for n in list(done):
        if done[n] is None and n not in gl and n not in mod.decls and n not in mod.funcs: pass
    print('\n'.join(E.typedefs)); E.typedefs = []
    # externals prototypes / stubs
    have = set()
    for mf in [os.path.join(os.path.dirname(os.path.abspath(__file__)), 'vf_rt.h')] + models:
        have |= set(re.findall(r'#\s*define\s+HAVE_(\w+)', open(mf).read()))
    stubs = []; meta = {'externals': [], 'cut': [], 'unmodelled': [], 'modelled': [], 'functions': order,
                        'ir_instructions': sum(len(i) for n in order for b, i in mod.funcs[n].blocks)}
    for n in sorted(done):
        if done[n] is not None or n in gl: continue
        if n in mod.funcs:
            f = mod.funcs[n]; ret, args = f.ret, [t for t, a in f.args]
        elif n in mod.decls: ret, _, args, va = mod.decls[n]
        else: continue
        if fname(n) == n: continue
        meta['externals'].append(n)
        proto = '%s %s(%s)' % (E.ctype(ret), fname(n), ', '.join('%s a%d' % (E.ctype(a), i) for i, a in enumerate(args)) or 'void')
        if fname(n) in have: meta['modelled'].append(n); stubs.append(proto + ';'); continue
        if n in forbid: meta.setdefault('forbidden', []).append(n); act = '__CPROVER_assert(0, "reached-forbidden:%s"); __CPROVER_assume(0);' % n[:80]
        elif n in cuts: meta['cut'].append(n); act = 'vf_cut();'
        else: meta['unmodelled'].append(n); act = '__CPROVER_assert(0, "unmodelled:%s"); __CPROVER_assume(0);' % n[:80]
        if ret.k == 'void': stubs.append(proto + ' { %s }' % act)
        else: stubs.append(proto + ' { %s %s r; return r; }' % (act, E.ctype(ret)))
    print('\n'.join(E.typedefs)); E.typedefs = []
    print('\n'.join(stubs))
    for mf in models: print('#include "%s"' % mf)
    # recursive functions (members of a call-graph cycle): CBMC needs an explicit recursion bound for them
    sys.setrecursionlimit(100000)
    idx = {}; low = {}; onst = set(); st = []; rec = []; cnt = [0]
    def scc(v):
        idx[v] = low[v] = cnt[0]; cnt[0] += 1; st.append(v); onst.add(v)
        for w in callgraph.get(v, ()):
            if w not in callgraph: continue
            if w not in idx: scc(w); low[v] = min(low[v], low[w])
            elif w in onst: low[v] = min(low[v], idx[w])
        if low[v] == idx[v]:
            comp = []
            while True:
                w = st.pop(); onst.discard(w); comp.append(w)
                if w == v: break
            if len(comp) > 1 or v in callgraph.get(v, ()): rec.extend(comp)
    for v in list(callgraph):
        if v not in idx: scc(v)
    meta['recursive'] = [fname(r) for r in rec]
    if metaf: json.dump(meta, open(metaf, 'w'), indent=1)
    print('\n'.join(E.typedefs))
    for n in order: print(done[n][0] + ';')
    print('\n'.join(gdefs))
    for n in order: print(done[n][1])

if __name__ == '__main__':
    try: main()
    except Exception as e:
        sys.stderr.write('AT: ' + ' '.join(t[1] for t in getattr(sys,'_cur',[])) + '\n'); raise

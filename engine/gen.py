#!/usr/bin/env python3
"""developer helper: gen.py <property> <obligation> <outdir> -> writes main.c (+meta) for manual cbmc experiments"""
import sys, os, json
sys.path.insert(0, os.path.dirname(os.path.abspath(__file__))); sys.path.insert(0, os.path.dirname(os.path.dirname(os.path.abspath(__file__))))
import driver, obligations
ob = [o for o in obligations.PROPERTIES[sys.argv[1]]['obligations'] if o['name'] == sys.argv[2]][0]
wd = sys.argv[3]; os.makedirs(wd, exist_ok=True)
ll = driver.clang_ir(ob, wd, witness=False)
c, meta = driver.to_c(ob, wd, ll, 'main')
print(' '.join(driver.cbmc_base(ob, c)))
print('recursive:', meta.get('recursive'))

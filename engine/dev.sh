#!/bin/sh
# developer helper: dev.sh <harness.cpp> <entry> <outdir> [clang flags...]   -> <outdir>/x.c ready for cbmc
H=$1; E=$2; O=$3; shift 3
mkdir -p $O
clang++-14 -std=c++17 -O1 -fno-vectorize -fno-slp-vectorize -fno-unroll-loops -fno-strict-aliasing -fno-exceptions -Wno-everything -DMANIFOLD_VERIF=1 -I/verif/harness -I/repo/src -I/repo/include "$@" -S -emit-llvm $H -o $O/x.ll || exit 1
python3 /verif/engine/ir2c.py $O/x.ll $E --meta $O/x.meta.json $VF_IR2C > $O/x.c || exit 1
python3 -c "import json;m=json.load(open('$O/x.meta.json'));print('functions',len(m['functions']),'ir',m['ir_instructions'],'unmodelled',m['unmodelled'],'cut',m['cut'])"
cbmc $O/x.c -I /verif/engine --function $E --show-loops --drop-unused-functions 2>/dev/null | grep "^Loop" | sed 's/:$//' | awk '{print $2}' > $O/loops.txt
wc -l < $O/loops.txt

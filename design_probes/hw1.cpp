// prelude: harvest library assertions
#include "manifold/optional_assert.h"
extern "C" void vf_lib_assert_fail(unsigned line);
#undef ASSERT
#undef DEBUG_ASSERT
#define ASSERT(c, EX) do { if (!(c)) vf_lib_assert_fail(__LINE__); } while (0)
#define DEBUG_ASSERT(c, EX, msg) do { if (!(c)) vf_lib_assert_fail(__LINE__); } while (0)
#include "collider.h"
using namespace manifold;
using namespace manifold::collider_internal;
extern "C" { unsigned vf_nondet_u32(); void vf_assume(bool); void vf_assert(bool); double vf_nondet_f64(); }
#ifndef VF_N
#define VF_N 4
#endif
extern "C" void h_radix() {
  uint32_t morton[VF_N]; int parent[2*VF_N-1]; std::pair<int,int> children[VF_N-1];
  for (int i = 0; i < VF_N; i++) { morton[i] = vf_nondet_u32(); if (i) vf_assume(morton[i-1] <= morton[i]); }
  for (int i = 0; i < 2*VF_N-1; i++) parent[i] = -1;
  for (int i = 0; i < VF_N-1; i++) children[i] = {-1,-1};
  CreateRadixTree t{VecView<int>(parent, 2*VF_N-1), VecView<std::pair<int,int>>(children, VF_N-1), VecView<const uint32_t>(morton, VF_N)};
  for (int i = 0; i < VF_N-1; i++) t(i);
  for (int i = 0; i < 2*VF_N-1; i++) { if (i == 1) vf_assert(parent[i] == -1); else vf_assert(parent[i] >= 0 && parent[i] % 2 == 1 && parent[i] < 2*VF_N-1); }
  for (int i = 0; i < VF_N-1; i++) { int a = children[i].first, b = children[i].second; vf_assert(a >= 0 && a < 2*VF_N-1 && b >= 0 && b < 2*VF_N-1 && a != b); vf_assert(parent[a] == 2*i+1 && parent[b] == 2*i+1); }
  for (int l = 0; l < VF_N; l++) { int node = 2*l, steps = 0; while (node != 1 && steps < VF_N) { node = parent[node]; steps++; } vf_assert(node == 1); }
#ifdef VF_WITNESS
  vf_assert(false);
#endif
}

#include "manifold/optional_assert.h"
extern "C" void vf_lib_assert_fail(unsigned line);
#undef ASSERT
#undef DEBUG_ASSERT
#define ASSERT(c, EX) do { if (!(c)) vf_lib_assert_fail(__LINE__); } while (0)
#define DEBUG_ASSERT(c, EX, msg) do { if (!(c)) vf_lib_assert_fail(__LINE__); } while (0)
#include "parallel.h"
using namespace manifold;
extern "C" { unsigned vf_nondet_u32(); void vf_assume(bool); void vf_assert(bool); }
struct AbsSum { int operator()(int a, int b) const { return (a < 0 ? -a : a) + (b < 0 ? -b : b); } };
#ifndef VF_N
#define VF_N 4
#endif
extern "C" void h_exscan() {
  int in[VF_N], outP[VF_N], outS[VF_N];
  unsigned n = vf_nondet_u32(); vf_assume(n <= VF_N);
  for (unsigned i = 0; i < VF_N; i++) { in[i] = (int)vf_nondet_u32(); vf_assume(in[i] > -1000 && in[i] < 1000); outP[i] = outS[i] = 0; }
  int init = (int)vf_nondet_u32(); vf_assume(init >= 0 && init < 1000);
  exclusive_scan(ExecutionPolicy::Par, in, in + n, outP, init, AbsSum(), 0);
  exclusive_scan(ExecutionPolicy::Seq, in, in + n, outS, init, AbsSum(), 0);
  for (unsigned i = 0; i < VF_N; i++) vf_assert(outP[i] == outS[i]);
#ifdef VF_WITNESS
  vf_assert(false);
#endif
}

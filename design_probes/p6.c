#include <assert.h>
#include <stdint.h>
#ifndef NE
#define NE 4
#endif
#ifndef R
#define R 2
#endif
uint64_t mData[NE];
uint64_t nondet_u64(void); unsigned nondet_uint(void); _Bool nondet_bool(void);
#define PARv(v) ((uint32_t)(v))
#define RNKv(v) (((uint32_t)((v)>>32))&0x7FFFFFFFu)
#define PAR(i) PARv(mData[i])
#define RNK(i) RNKv(mData[i])
static int ordered(uint32_t c, uint32_t p){ return RNK(c)<RNK(p) || (RNK(c)==RNK(p) && c>p); }
static int inv(void){ for(uint32_t i=0;i<NE;i++){ uint32_t p=PAR(i); if(p>=NE) return 0; if(RNK(i)>2*NE) return 0; if((mData[i]>>63)) return 0; if(p!=i && !ordered(i,p)) return 0; } return 1; }
static uint32_t root_of(uint32_t x){ for(int k=0;k<NE;k++){ uint32_t p=PAR(x); if(p==x) break; x=p;} return x; }
static int is_anc(uint32_t a, uint32_t x){ for(int k=0;k<=NE;k++){ if(x==a) return 1; uint32_t p=PAR(x); if(p==x) return 0; x=p;} return 0; }
int budget=R;
// interference summary: replace state by any state reachable by G* from it
static void env(void){
  if(budget==0 || !nondet_bool()) return; budget--;
  uint64_t old[NE]; uint32_t oroot[NE];
  for(int i=0;i<NE;i++){ old[i]=mData[i]; oroot[i]=root_of(i);} 
  for(int i=0;i<NE;i++) mData[i]=nondet_u64();
  __CPROVER_assume(inv());
  for(uint32_t i=0;i<NE;i++){
    if(PARv(old[i])!=i){ __CPROVER_assume(PAR(i)!=i && RNK(i)==RNKv(old[i])); __CPROVER_assume(is_anc(PARv(old[i]), i)); }
    else __CPROVER_assume(RNK(i)>=RNKv(old[i]));
  }
  for(uint32_t i=0;i<NE;i++) for(uint32_t j=0;j<NE;j++) if(oroot[i]==oroot[j]) __CPROVER_assume(root_of(i)==root_of(j)); // only coarsens
}
int guarantee_ok=1;
static int cas(uint32_t i, uint64_t* expected, uint64_t desired){ env(); if(mData[i]==*expected){ mData[i]=desired; if(!inv()) guarantee_ok=0; return 1;} *expected=mData[i]; return 0; }
static uint64_t aload(uint32_t i){ env(); return mData[i]; }
static uint32_t parent(uint32_t id){ return (uint32_t)aload(id); }
static uint32_t rank_(uint32_t id){ return ((uint32_t)(aload(id)>>32))&0x7FFFFFFFu; }
static uint32_t findImpl(uint32_t id){ while(id!=parent(id)){ uint64_t value=aload(id); uint32_t np=parent((uint32_t)value); uint64_t nv=(value&0xFFFFFFFF00000000ULL)|np; if(value!=nv) cas(id,&value,nv); id=np; } return id; }
static uint32_t unite(uint32_t id1,uint32_t id2){ for(;;){ id1=findImpl(id1); id2=findImpl(id2); if(id1==id2) return id1; uint32_t r1=rank_(id1), r2=rank_(id2); if(r1>r2||(r1==r2&&id1<id2)){ uint32_t t=r1;r1=r2;r2=t; t=id1;id1=id2;id2=t; } uint64_t oldE=((uint64_t)r1<<32)|id1, newE=((uint64_t)r1<<32)|id2; if(!cas(id1,&oldE,newE)) continue; if(r1==r2){ oldE=((uint64_t)r2<<32)|id2; newE=((uint64_t)(r2+1)<<32)|id2; if(!cas(id2,&oldE,newE)&&r2==0) continue; } break; } return id2; }
int main(){ for(int i=0;i<NE;i++) mData[i]=nondet_u64(); __CPROVER_assume(inv()); for(int i=0;i<NE;i++) __CPROVER_assume(RNK(i)<=NE);
  uint32_t a=nondet_uint(), b=nondet_uint(); __CPROVER_assume(a<NE&&b<NE);
  uint32_t r0[NE]; for(int i=0;i<NE;i++) r0[i]=root_of(i);
  unite(a,b);
  assert(guarantee_ok); assert(inv()); assert(root_of(a)==root_of(b));
#ifdef WITNESS
  assert(0);
#endif
}

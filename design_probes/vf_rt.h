#include <stdint.h>
#include <stddef.h>
#ifndef REAL_T
typedef double real_t;
#else
typedef REAL_T real_t;
#endif
void *malloc(size_t); void free(void*); void* memcpy(void*,const void*,size_t); void* memmove(void*,const void*,size_t); void* memset(void*,int,size_t);
static inline uint32_t vf_atomicrmw_add_32(uint32_t* p, uint32_t v){ uint32_t o=*p; *p=o+v; return o; }
static inline uint32_t vf_atomicrmw_sub_32(uint32_t* p, uint32_t v){ uint32_t o=*p; *p=o-v; return o; }
static inline void vf_unreachable(void){ __CPROVER_assert(0,"unreachable reached"); __CPROVER_assume(0); }
static inline void* vf_memcpy(void* d, const void* s, uint64_t n){ return memcpy(d,s,n); }
static inline void* vf_memmove(void* d, const void* s, uint64_t n){ return memmove(d,s,n); }
static inline void* vf_memset(void* d, unsigned char c, uint64_t n){ return memset(d,c,n); }
static inline uint32_t vf_ctlz_i32(uint32_t x, unsigned char z){ if(z) __CPROVER_assert(x!=0,"ctlz(0) is UB (__builtin_clz(0))"); if(x==0) return 32; return __builtin_clz(x); }
static inline uint64_t vf_ctlz_i64(uint64_t x, unsigned char z){ if(z) __CPROVER_assert(x!=0,"ctlz(0) is UB"); if(x==0) return 64; return __builtin_clzll(x); }
static inline uint64_t vf_umax_i64(uint64_t a, uint64_t b){ return a>b?a:b; }
static inline uint64_t vf_umin_i64(uint64_t a, uint64_t b){ return a<b?a:b; }
static inline uint32_t vf_smax_i32(uint32_t a, uint32_t b){ return (int32_t)a>(int32_t)b?a:b; }
static inline uint32_t vf_smin_i32(uint32_t a, uint32_t b){ return (int32_t)a<(int32_t)b?a:b; }
static inline real_t vf_fabs_f64(real_t x){ return x<0?-x:x; }
static inline real_t vf_fmuladd_f64(real_t a, real_t b, real_t c){ return a*b+c; }
static inline void vf_nsw_add32(uint32_t a, uint32_t b){ int64_t r=(int64_t)(int32_t)a+(int64_t)(int32_t)b; __CPROVER_assert(r>=INT32_MIN&&r<=INT32_MAX,"signed overflow (add nsw)"); }
static inline void vf_nsw_sub32(uint32_t a, uint32_t b){ int64_t r=(int64_t)(int32_t)a-(int64_t)(int32_t)b; __CPROVER_assert(r>=INT32_MIN&&r<=INT32_MAX,"signed overflow (sub nsw)"); }
static inline void vf_nsw_mul32(uint32_t a, uint32_t b){ int64_t r=(int64_t)(int32_t)a*(int64_t)(int32_t)b; __CPROVER_assert(r>=INT32_MIN&&r<=INT32_MAX,"signed overflow (mul nsw)"); }
static inline void vf_nsw_add64(uint64_t a, uint64_t b){ __int128 r=(__int128)(int64_t)a+(__int128)(int64_t)b; __CPROVER_assert(r>=INT64_MIN&&r<=INT64_MAX,"signed overflow (add nsw)"); }
static inline void vf_nsw_sub64(uint64_t a, uint64_t b){ __int128 r=(__int128)(int64_t)a-(__int128)(int64_t)b; __CPROVER_assert(r>=INT64_MIN&&r<=INT64_MAX,"signed overflow (sub nsw)"); }
static inline void vf_nsw_mul64(uint64_t a, uint64_t b){ __int128 r=(__int128)(int64_t)a*(__int128)(int64_t)b; __CPROVER_assert(r>=INT64_MIN&&r<=INT64_MAX,"signed overflow (mul nsw)"); }
/* harness primitives (extern "C" in the C++ harness) */
uint32_t nondet_uint32_t(void); int32_t nondet_int32_t(void); real_t nondet_real(void); uint64_t nondet_uint64_t(void);
static inline uint32_t vf_nondet_u32(void){ return nondet_uint32_t(); }
static inline uint32_t vf_nondet_i32(void){ return (uint32_t)nondet_int32_t(); }
static inline uint64_t vf_nondet_u64(void){ return nondet_uint64_t(); }
static inline real_t vf_nondet_f64(void){ return nondet_real(); }
static inline void vf_assume(unsigned char c){ __CPROVER_assume(c); }
static inline void vf_assert(unsigned char c){ __CPROVER_assert(c, "harness assertion"); }
static inline void vf_lib_assert_fail(uint32_t line){ __CPROVER_assert(0, "library ASSERT/DEBUG_ASSERT"); __CPROVER_assume(0); }
static inline void vf_cut(void){ __CPROVER_assume(0); }
static inline uint32_t vf_abs_i32(uint32_t x, unsigned char p){ return (int32_t)x<0 ? (uint32_t)(-(int32_t)x) : x; }

#include "manifold/optional_assert.h"
extern "C" void vf_lib_assert_fail(unsigned line);
#undef ASSERT
#undef DEBUG_ASSERT
#define ASSERT(c, EX) do { if (!(c)) vf_lib_assert_fail(__LINE__); } while (0)
#define DEBUG_ASSERT(c, EX, msg) do { if (!(c)) vf_lib_assert_fail(__LINE__); } while (0)
#include "/repo/src/boolean3.cpp"
using namespace manifold;
extern "C" { unsigned vf_nondet_u32(); void vf_assume(bool); void vf_assert(bool); double vf_nondet_f64(); }
static double F() { double d = vf_nondet_f64(); vf_assume(d == d && d <= VF_BND && d >= -VF_BND); return d; }
static vec3 V() { return vec3(F(), F(), F()); }
template <bool expandP, bool forward> static void run() {
  Manifold::Impl a, b;
  a.vertPos_.resize(1, vec3(0.0)); a.vertNormal_.resize(1, vec3(0.0));
  a.vertPos_[0] = V(); a.vertNormal_[0] = V();
  // b: one triangle (tri 0) plus three neighbour triangles whose normals feed `dir`
  b.vertPos_.resize(3, vec3(0.0)); b.vertNormal_.resize(3, vec3(0.0));
  for (int i = 0; i < 3; i++) { b.vertPos_[i] = V(); b.vertNormal_[i] = V(); }
  b.faceNormal_.resize(4, vec3(0.0));
  for (int i = 0; i < 4; i++) b.faceNormal_[i] = V();
  b.halfedge_.resize(12);
  int v0 = vf_nondet_u32() % 3, v1 = vf_nondet_u32() % 3, v2 = vf_nondet_u32() % 3;
  vf_assume(v0 != v1 && v1 != v2 && v0 != v2);
  const int tv[3] = {v0, v1, v2};
  for (int i = 0; i < 3; i++) {
    b.halfedge_.Set(i, tv[i], 3 * (i + 1), tv[i]);          // pair lives in neighbour tri i+1
    b.halfedge_.Set(3 * (i + 1), tv[(i + 1) % 3], i, tv[(i + 1) % 3]);
    b.halfedge_.Set(3 * (i + 1) + 1, tv[i], -1, tv[i]);
    b.halfedge_.Set(3 * (i + 1) + 2, -1, -1, -1);
  }
  Kernel02<expandP, forward> k02{a, b};
  auto r = k02(0, 0);
  vf_assert(r.first >= -1 && r.first <= 1);
}
extern "C" void h_k02_tt() { run<true, true>();
#ifdef VF_WITNESS
  vf_assert(false);
#endif
}
extern "C" void h_k02_ff() { run<false, false>(); }

#include "manifold/optional_assert.h"
extern "C" void vf_lib_assert_fail(unsigned line);
#undef ASSERT
#undef DEBUG_ASSERT
#define ASSERT(c, EX) do { if (!(c)) vf_lib_assert_fail(__LINE__); } while (0)
#define DEBUG_ASSERT(c, EX, msg) do { if (!(c)) vf_lib_assert_fail(__LINE__); } while (0)
#include "/repo/src/edge_op.cpp"
using namespace manifold;
extern "C" { unsigned vf_nondet_u32(); void vf_assume(bool); void vf_assert(bool); }
#ifndef VF_T
#define VF_T 4
#endif
#ifndef VF_V
#define VF_V 4
#endif
static inline int nx(int h) { return h % 3 == 2 ? h - 2 : h + 1; }

// representation invariant I (tombstones allowed iff allowDead)
static bool InvI(const Halfedges& he, int n, int numVert) {
  bool ok = true;
  for (int h = 0; h < n; ++h) {
    const int s = he.Start(h), p = he.Pair(h);
    const int t0 = 3 * (h / 3);
    const bool dead = he.Pair(t0) < 0;
    if (dead) {
      ok = ok && s == -1 && p == -1;
    } else {
      ok = ok && p >= 0 && p < n && p != h && s >= 0 && s < numVert;
      if (p >= 0 && p < n) {
        ok = ok && he.Pair(p) == h && he.Start(p) == he.Start(nx(h)) &&
             he.Start(nx(p)) == s && s != he.Start(nx(h));
      }
    }
  }
  return ok;
}

extern "C" void h_collapse() {
  constexpr int n = 3 * VF_T;
  Manifold::Impl impl;
  impl.halfedge_.resize_nofill(n);
  for (int h = 0; h < n; ++h) {
    int s = (int)vf_nondet_u32(), p = (int)vf_nondet_u32();
    vf_assume(s >= 0 && s < VF_V && p >= 0 && p < n);
    impl.halfedge_.Set(h, s, p, s);
  }
  impl.vertPos_.resize(VF_V, vec3(0.0));
  impl.faceNormal_.resize(VF_T, vec3(0.0, 0.0, 1.0));
  impl.meshRelation_.triRef.resize(VF_T, TriRef{0, 0, -1, 0});
  vf_assume(InvI(impl.halfedge_, n, VF_V));
  // 2-manifold: no duplicate directed edges
  for (int a = 0; a < n; ++a)
    for (int b = a + 1; b < n; ++b)
      vf_assume(!(impl.halfedge_.Start(a) == impl.halfedge_.Start(b) &&
                  impl.halfedge_.Start(nx(a)) == impl.halfedge_.Start(nx(b))));
  // single fan per vertex: orbit of h covers every halfedge starting at start(h)
  for (int h = 0; h < n; ++h) {
    int cnt = 0;
    for (int g = 0; g < n; ++g) cnt += impl.halfedge_.Start(g) == impl.halfedge_.Start(h);
    int cur = h, len = 0;
    for (int k = 0; k < VF_T + 1; ++k) {
      cur = nx(impl.halfedge_.Pair(cur)); ++len;
      if (cur == h) break;
    }
    vf_assume(cur == h && len == cnt);
  }
  int edge = (int)vf_nondet_u32();
  vf_assume(edge >= 0 && edge < n);
  Vec<int> scratch;
  scratch.reserve(10);
  impl.CollapseEdge(edge, scratch, 1.0, 0);
  vf_assert(InvI(impl.halfedge_, (int)impl.halfedge_.size(), (int)impl.vertPos_.size()));
#ifdef VF_WITNESS
  vf_assert(false);
#endif
}

#pragma once
#include <cstddef>
extern "C" unsigned vf_nondet_u32(); extern "C" void vf_assume(bool);
namespace tbb {
struct split {};
struct pre_scan_tag { static bool is_final_scan() { return false; } operator bool() const { return false; } };
struct final_scan_tag { static bool is_final_scan() { return true; } operator bool() const { return true; } };
template <typename T> struct blocked_range {
  T b_, e_; size_t g_;
  blocked_range(T b, T e, size_t g = 1) : b_(b), e_(e), g_(g) {}
  T begin() const { return b_; } T end() const { return e_; } size_t size() const { return size_t(e_ - b_); }
  bool empty() const { return !(b_ < e_); }
};
namespace this_task_arena { template <typename F> auto isolate(F&& f) -> decltype(f()) { return f(); } inline int max_concurrency() { return 4; } }
// protocol model, 2 chunks, probe only
template <typename R, typename Body> void parallel_scan(const R& r, Body& body) {
  auto b = r.begin(), e = r.end();
  if (!(b < e)) return;
  size_t n = r.size(); size_t m = vf_nondet_u32(); vf_assume(m <= n);
  R r0(b, b + m), r1(b + m, e);
  unsigned mode = vf_nondet_u32() % 4;
  if (mode == 3) {  // three chunks: summary of the pre-scanned middle chunk feeds the final scan of the right chunk
    size_t m2 = vf_nondet_u32(); vf_assume(m <= m2 && m2 <= n);
    R q1(b + m, b + m2), q2(b + m2, e);
    Body b1(body, split());
    if (vf_nondet_u32() & 1) { if (m < m2) b1(q1, pre_scan_tag()); if (m) body(r0, final_scan_tag()); }
    else { if (m) body(r0, final_scan_tag()); if (m < m2) b1(q1, pre_scan_tag()); }
    b1.reverse_join(body);
    if (vf_nondet_u32() & 1) { if (m < m2) body(q1, final_scan_tag()); if (m2 < n) b1(q2, final_scan_tag()); }
    else { if (m2 < n) b1(q2, final_scan_tag()); if (m < m2) body(q1, final_scan_tag()); }
    body.assign(b1);
    return;
  }
  if (mode == 0) { if (m) body(r0, final_scan_tag()); if (m < n) body(r1, final_scan_tag()); }
  else if (mode == 1) {   // right half pre-scanned by a split body (before or after left final scan)
    Body b1(body, split());
    if (vf_nondet_u32() & 1) { if (m < n) b1(r1, pre_scan_tag()); if (m) body(r0, final_scan_tag()); }
    else { if (m) body(r0, final_scan_tag()); if (m < n) b1(r1, pre_scan_tag()); }
    b1.reverse_join(body);           // b1 now summarises [b,e)
    if (m < n) body(r1, final_scan_tag());
    body.assign(b1);
  } else {                 // left half pre-scanned, then final-scanned
    Body b0(body, split());
    if (m) b0(r0, pre_scan_tag());
    if (m) body(r0, final_scan_tag()); if (m < n) body(r1, final_scan_tag());
  }
}
template <typename F1, typename F2> void parallel_invoke(const F1& f1, const F2& f2) { if (vf_nondet_u32() & 1) { f1(); f2(); } else { f2(); f1(); } }
template <typename R, typename F> void parallel_for(const R& r, const F& f) {
  auto b = r.begin(), e = r.end(); if (!(b < e)) return; size_t n = r.size(); size_t m = vf_nondet_u32(); vf_assume(m <= n);
  R r0(b, b + m), r1(b + m, e);
  if (vf_nondet_u32() & 1) { if (m) f(r0); if (m < n) f(r1); } else { if (m < n) f(r1); if (m) f(r0); }
}
template <typename R, typename T, typename F, typename J> T parallel_reduce(const R& r, const T& id, const F& f, const J& j) {
  auto b = r.begin(), e = r.end(); size_t n = r.size(); size_t m = vf_nondet_u32(); vf_assume(m <= n);
  R r0(b, b + m), r1(b + m, e);
  if (vf_nondet_u32() & 1) return f(r1, f(r0, id));
  return j(f(r0, id), f(r1, id));
}
template <typename R, typename Body> void parallel_reduce(const R& r, Body& body) { body(r); }
template <typename R, typename T, typename F, typename J> T parallel_scan(const R& r, const T& id, const F& f, const J& j) {
  auto b = r.begin(), e = r.end(); size_t n = r.size(); size_t m = vf_nondet_u32(); vf_assume(m <= n);
  R r0(b, b + m), r1(b + m, e);
  if (vf_nondet_u32() & 1) { T s = f(r0, id, true); return f(r1, s, true); }
  T s1 = f(r1, id, false); T s0 = f(r0, id, true); T tot = j(s0, s1); f(r1, s0, true); return tot;
}
template <typename T> struct combinable { T t; combinable() : t() {} template <typename F> combinable(F f) : t(f()) {} T& local() { return t; } template <typename F> void combine_each(F f) { f(t); } };
}

#include <assert.h>
#include <math.h>
#ifdef HALF
typedef __CPROVER_floatbv[EB+MB+1][MB] FT;
#else
typedef double FT;
#endif
FT nondet_ft(void);
typedef struct {FT x,y,z;} v3; typedef struct {FT x,y;} v2;
static int fin(FT d){ return d==d && d-d==(FT)0; }
static FT F(void){ FT d=nondet_ft(); __CPROVER_assume(fin(d)); return d; }
static FT absf(FT a){ return a<0?-a:a; }
static int Shadows(FT p, FT q, FT dir){ return p==q ? dir<0 : p<q; }
static v2 Interpolate(v3 aL, v3 aR, FT x){
  FT dxL=x-aL.x, dxR=x-aR.x;
#ifdef CHECK_DOMAIN
  assert(dxL*dxR<=0);
#endif
  int useL=absf(dxL)<absf(dxR);
  v3 d={aR.x-aL.x,aR.y-aL.y,aR.z-aL.z};
  FT lambda=(useL?dxL:dxR)/d.x;
  v2 r;
  if(!fin(lambda)||!fin(d.y)||!fin(d.z)){ r.x=aL.y; r.y=aL.z; return r; }
  r.x=lambda*d.y+(useL?aL.y:aR.y);
  r.y=lambda*d.z+(useL?aL.z:aR.z);
  return r;
}
int main(){
  v3 aL={F(),F(),F()}, aR={F(),F(),F()}; FT x=F();
  __CPROVER_assume(aL.x<=x && x<=aR.x && aL.x<aR.x);
  v2 r=Interpolate(aL,aR,x);
  FT lo=aL.y<aR.y?aL.y:aR.y, hi=aL.y<aR.y?aR.y:aL.y;
  assert(r.x>=lo && r.x<=hi);   // containment lemma
}

#include <assert.h>
#ifdef HALF
typedef __CPROVER_floatbv[EB+MB+1][MB] FT;
#else
typedef double FT;
#endif
FT nondet_ft(void); int nondet_int(void); _Bool nondet_bool(void);
typedef struct {FT x,y,z;} v3; typedef struct {FT x,y;} v2;
static int fin(FT d){ return d==d && d-d==(FT)0; }
static FT F(void){ FT d=nondet_ft(); __CPROVER_assume(fin(d) && d<=(FT)BND && d>=-(FT)BND); return d; }
static FT absf(FT a){ return a<0?-a:a; }
static int Shadows(FT p, FT q, FT dir){ return p==q ? dir<0 : p<q; }
static FT withSign(int pos, FT v){ return pos? v : -v; }
int domain_viol=0;
static v2 Interpolate(v3 aL, v3 aR, FT x){
  FT dxL=x-aL.x, dxR=x-aR.x;
  if(!(dxL*dxR<=0)) domain_viol=1;
  int useL=absf(dxL)<absf(dxR);
  v3 d={aR.x-aL.x,aR.y-aL.y,aR.z-aL.z};
  FT lambda=(useL?dxL:dxR)/d.x;
  v2 r;
  if(!fin(lambda)||!fin(d.y)||!fin(d.z)){ r.x=aL.y; r.y=aL.z; return r; }
  r.x=lambda*d.y+(useL?aL.y:aR.y);
  r.y=lambda*d.z+(useL?aL.z:aR.z);
  return r;
}
v3 posA; FT nxA; v3 posB[3]; FT nxB[3]; FT edgeDirY[3]; FT faceNz;
int expandP, forward;
static int Shadow01(int b1s,int b1e,int edge, v2* yz){
  FT a0x=posA.x, b1sx=posB[b1s].x, b1ex=posB[b1e].x, a0xp=nxA, b1sxp=nxB[b1s], b1exp=nxB[b1e];
  int s01= forward ? Shadows(a0x,b1ex,withSign(expandP,a0xp)-b1exp)-Shadows(a0x,b1sx,withSign(expandP,a0xp)-b1sxp)
                   : Shadows(b1sx,a0x,withSign(expandP,b1sxp)-a0xp)-Shadows(b1ex,a0x,withSign(expandP,b1exp)-a0xp);
  v2 r; r.x=r.y=(FT)(0.0/0.0);
  if(s01!=0){ r=Interpolate(posB[b1s],posB[b1e],posA.x); FT dir=edgeDirY[edge];
    if(forward){ if(!Shadows(posA.y,r.x,-dir)) s01=0; } else { if(!Shadows(r.x,posA.y,withSign(expandP,dir))) s01=0; } }
  *yz=r; return s01;
}
int main(){
  expandP=nondet_bool(); forward=nondet_bool();
  posA.x=F();posA.y=F();posA.z=F(); nxA=F(); faceNz=F();
  for(int i=0;i<3;i++){ posB[i].x=F();posB[i].y=F();posB[i].z=F(); nxB[i]=F(); edgeDirY[i]=F(); }
  int vid[3]; for(int i=0;i<3;i++){ vid[i]=nondet_int(); __CPROVER_assume(vid[i]>=0&&vid[i]<3);} __CPROVER_assume(vid[0]!=vid[1]&&vid[1]!=vid[2]&&vid[0]!=vid[2]);
  int s02=0; int k=0; int shadows=0; v3 yzz[2];
  for(int i=0;i<3;i++){ int s=vid[i], e=vid[(i+1)%3]; int isF= s<e; int st=isF?s:e, en=isF?e:s; /* edge id: canonical per unordered pair */ int edge=st+en-1;
    v2 yz; int s01=Shadow01(st,en,edge,&yz);
    if(fin(yz.x)){ s02+= s01*((forward==isF)?-1:1); if(k<2&&(k==0||((s01!=0)!=shadows))){ shadows=s01!=0; yzz[k].x=yz.x; yzz[k].y=yz.y; yzz[k].z=yz.y; k++; } } }
  if(s02!=0){ assert(k==2); 
#ifdef CHECK_DOMAIN
    domain_viol=0; (void)Interpolate(yzz[0],yzz[1],posA.y); assert(!domain_viol);
#endif
  }
  assert(s02>=-1 && s02<=1);
}

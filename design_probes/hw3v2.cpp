#include "manifold/optional_assert.h"
extern "C" void vf_lib_assert_fail(unsigned line);
#undef ASSERT
#undef DEBUG_ASSERT
#define ASSERT(c, EX) do { if (!(c)) vf_lib_assert_fail(__LINE__); } while (0)
#define DEBUG_ASSERT(c, EX, msg) do { if (!(c)) vf_lib_assert_fail(__LINE__); } while (0)
#include "/repo/src/impl.cpp"
using namespace manifold;
extern "C" { unsigned vf_nondet_u32(); unsigned long vf_nondet_u64(); void vf_assume(bool); void vf_assert(bool); double vf_nondet_f64(); void* vf_new(unsigned long); }
#ifndef VF_L
#define VF_L 3
#endif
// build a vector of symbolic length <= maxn with arbitrary contents, no loops
template <typename T> static void mk(std::vector<T>& v, unsigned maxn) {
  T* p = static_cast<T*>(vf_new(maxn * sizeof(T)));
  unsigned n = vf_nondet_u32(); vf_assume(n <= maxn);
  struct R { T* b; T* e; T* c; } r{p, p + n, p + maxn};
  static_assert(sizeof(R) == sizeof(std::vector<T>), "layout");
  __builtin_memcpy(static_cast<void*>(&v), &r, sizeof r);
}
extern "C" void h_ingest() {
  MeshGL64 m;
  m.numProp = vf_nondet_u64();
  vf_assume(m.numProp <= 4);
  mk(m.vertProperties, 12);
  mk(m.triVerts, 12);
  mk(m.mergeFromVert, VF_L);
  mk(m.mergeToVert, VF_L);
  mk(m.runIndex, VF_L);
  mk(m.runOriginalID, VF_L);
  mk(m.faceID, VF_L);
  m.tolerance = vf_nondet_f64();
  Manifold::Impl impl(m, nullptr);
#ifdef VF_WITNESS
  vf_assert(false);
#endif
}

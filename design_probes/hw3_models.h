#define HAVE_f__Znwm
#define HAVE_f__ZdlPv
#define HAVE_f__ZSt20__throw_length_errorPKc
#define HAVE_f__ZSt17__throw_bad_allocv
#define HAVE_f__ZSt28__throw_bad_array_new_lengthv
#define HAVE_f__ZN8manifold8Manifold4Impl10ReserveIDsEj
#include <stdint.h>
unsigned char* f__Znwm(uint64_t n); void f__ZdlPv(unsigned char* p); void f__ZSt20__throw_length_errorPKc(unsigned char* m); void f__ZSt17__throw_bad_allocv(void); void f__ZSt28__throw_bad_array_new_lengthv(void); uint32_t f__ZN8manifold8Manifold4Impl10ReserveIDsEj(uint32_t n);

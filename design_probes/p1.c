#include <stdint.h>
#include <assert.h>
#ifndef N
#define N 5
#endif
uint32_t nondet_u32(void); double nondet_double(void); int nondet_int(void);
typedef struct { double minx,miny,minz,maxx,maxy,maxz; } Box;
uint32_t morton[N]; int nodeParent[2*N-1]; int child1[N-1], child2[N-1]; Box nodeBox[2*N-1]; int counter[N-1];
static int plen_u(uint32_t a, uint32_t b){ __CPROVER_assert(a!=b, "clz(0)"); return __builtin_clz(a^b); }
static int plen(int i,int j){ if(j<0||j>=N) return -1; if(morton[i]==morton[j]) return 32+plen_u((uint32_t)i,(uint32_t)j); return plen_u(morton[i],morton[j]); }
static int rangeEnd(int i){ int dir=plen(i,i+1)-plen(i,i-1); dir=(dir>0)-(dir<0); int cp=plen(i,i-dir); int max_length=128; while(plen(i,i+dir*max_length)>cp) max_length*=4; int length=0; for(int step=max_length/2; step>0; step/=2){ if(plen(i,i+dir*(length+step))>cp) length+=step;} return i+dir*length; }
static int findSplit(int first,int last){ int cp=plen(first,last); int split=first; int step=last-first; do{ step=(step+1)>>1; int ns=split+step; if(ns<last){ int sp=plen(first,ns); if(sp>cp) split=ns; } } while(step>1); return split; }
static void radix(int internal){ int first=internal; int last=rangeEnd(first); if(first>last){int t=first;first=last;last=t;} int split=findSplit(first,last); int c1= split==first? split*2 : split*2+1; ++split; int c2= split==last? split*2: split*2+1; child1[internal]=c1; child2[internal]=c2; int node=internal*2+1; nodeParent[c1]=node; nodeParent[c2]=node; }
static Box uni(Box a, Box b){ Box o; o.minx=a.minx<b.minx?a.minx:b.minx; o.miny=a.miny<b.miny?a.miny:b.miny; o.minz=a.minz<b.minz?a.minz:b.minz; o.maxx=a.maxx>b.maxx?a.maxx:b.maxx;o.maxy=a.maxy>b.maxy?a.maxy:b.maxy;o.maxz=a.maxz>b.maxz?a.maxz:b.maxz; return o;}
static int overlap(Box a, Box b){ return a.minx<=b.maxx&&a.miny<=b.maxy&&a.minz<=b.maxz&&a.maxx>=b.minx&&a.maxy>=b.miny&&a.maxz>=b.minz; }
static void buildBoxes(int leaf){ int node=leaf*2; do{ node=nodeParent[node]; int internal=(node-1)/2; if(counter[internal]++==0) return; nodeBox[node]=uni(nodeBox[child1[internal]],nodeBox[child2[internal]]);} while(node!=1); }
int hit[N];
static int rec(Box q,int node){ int ov=overlap(nodeBox[node],q); if(ov && node%2==0){ hit[node/2]++; } return ov && node%2==1; }
static void find(Box q){ int stack[64]; int top=-1; int node=1; while(1){ int internal=(node-1)/2; int c1=child1[internal], c2=child2[internal]; int t1=rec(q,c1); int t2=rec(q,c2); if(!t1&&!t2){ if(top<0) break; node=stack[top--]; } else { node=t1?c1:c2; if(t1&&t2) stack[++top]=c2; } } }
static double fin(void){ double d=nondet_double(); __CPROVER_assume(d==d && d<1e300 && d>-1e300); return d; }
int main(){
  for(int i=0;i<N;i++){ morton[i]=nondet_u32(); if(i>0) __CPROVER_assume(morton[i-1]<=morton[i]); }
  for(int i=0;i<2*N-1;i++) nodeParent[i]=-1;
  for(int i=0;i<N-1;i++){ child1[i]=child2[i]=-1; counter[i]=0; }
  for(int i=0;i<N-1;i++) radix(i);
  Box leaf[N];
  for(int i=0;i<N;i++){ Box b; b.minx=fin();b.miny=fin();b.minz=fin();b.maxx=fin();b.maxy=fin();b.maxz=fin(); leaf[i]=b; nodeBox[2*i]=b; }
  for(int i=0;i<N;i++) buildBoxes(i);
  Box q; q.minx=fin();q.miny=fin();q.minz=fin();q.maxx=fin();q.maxy=fin();q.maxz=fin();
  for(int i=0;i<N;i++) hit[i]=0;
  find(q);
  for(int i=0;i<N;i++) assert(hit[i]==(overlap(leaf[i],q)?1:0));
#ifdef WITNESS
  assert(0);
#endif
}
